// Package c14: exporter background activity and lifecycle never corrupt the
// stream (property C14; PARTIAL: lock discipline of the bodies the background
// goroutines run + their sequential contracts; ticker loops, timing and real
// scheduling are not decidable here).
package c14

import (
	"sync"

	"github.com/vmware/go-ipfix/pkg/exporter"

	"verifh/common"
	"verifh/ref"
	"verifh/runner"
	"verifh/sx"
)

func Setup() { common.Setup() }

var kinds = []common.Kind{common.KU32, common.KString}

// Check_Lockset: every entry point a goroutine of the exporting process can
// run, under the access monitor, with a role per goroutine:
//
//	app       - the application's single goroutine calling SendSet
//	refresher - the UDP template refresh tick: sendRefreshedTemplates
//	checker   - the TCP connection check tick: checkConnToCollector (+ close)
//	closer    - CloseConnToCollector from any goroutine, possibly repeated
func Check_Lockset() {
	conn := &common.FakeConn{}
	ep := exporter.VerifNewExportingProcess(conn, sx.U32("domain"))
	sx.MonitorIgnore(conn)
	// some history first (unmonitored): 0..2 templates already sent
	j := sx.Range("templatesSent", 0, 2)
	for i := 0; i < j; i++ {
		_, err := ep.SendSet(common.TemplateSet(uint16(300+i), kinds))
		sx.Assert(err == nil, "history-template")
	}
	ep0 := sx.Choose("entryPoint", 8)
	if ep0 >= 6 {
		realBackground(ep0 - 6)
		return
	}
	switch ep0 {
	case 0:
		sx.MonitorBegin("app", false, ep)
		ep.SendSet(common.TemplateSet(400, kinds))
		sx.MonitorEnd()
	case 1:
		id := uint16(300)
		if j == 0 {
			id = 999 // unknown template: the refusal path
		}
		recs := common.DrawRecords(kinds, sx.Range("nrec", 1, 2))
		sx.MonitorBegin("app", false, ep)
		ep.SendSet(common.DataSet(id, recs))
		sx.MonitorEnd()
	case 2:
		conn.FailWrite = sx.Choose("writeFails", 2) == 1
		sx.MonitorBegin("refresher", false, ep)
		ep.VerifSendRefreshedTemplates()
		sx.MonitorEnd()
	case 3:
		conn.PeerEOF = sx.Choose("peerClosed", 2) == 1
		sx.MonitorBegin("checker", false, ep)
		if !ep.VerifCheckConn() {
			ep.VerifCloseInternal()
		}
		sx.MonitorEnd()
	case 4:
		sx.MonitorBegin("closer", true, ep)
		ep.CloseConnToCollector()
		sx.MonitorEnd()
	case 5:
		sx.MonitorBegin("app", false, ep)
		ep.NewTemplateID()
		sx.MonitorEnd()
	}
	sx.Reach("entry-point-done")
}

// realBackground: the goroutines the real InitExportingProcess starts (UDP:
// the refresh loop; net.Dial returns the harness's connection, the ticker
// fires when the harness says so), on the path where the refresh write fails
// and the background goroutine closes the process itself.  which == 0: the
// refresh goroutine's accesses are logged (role refresher); which == 1: the
// application's next SendSet on the process closed that way (role app).
func realBackground(which int) {
	conn := &common.FakeConn{}
	sx.MonitorIgnore(conn)
	sx.RegisterConn(conn)
	ep, err := exporter.InitExportingProcess(exporter.ExporterInput{CollectorAddress: "10.0.0.9:4739", CollectorProtocol: "udp", ObservationDomainID: 1, TempRefTimeout: 1})
	sx.Settle() // the refresh goroutine reaches its select
	sx.Assert(err == nil && sx.NumTickers() == 1, "init")
	_, err = ep.SendSet(common.TemplateSet(300, kinds))
	sx.Assert(err == nil, "history-template")
	conn.FailWrite = true
	if which == 0 {
		sx.MonitorBegin("refresher", false, ep)
		sx.FireTicker(0)
		sx.Settle()
		sx.MonitorEnd()
	} else {
		sx.FireTicker(0)
		sx.Settle()
		sx.MonitorBegin("app", false, ep)
		ep.SendSet(common.TemplateSet(400, kinds))
		sx.MonitorEnd()
	}
	sx.Assert(conn.Closed >= 1, "failed-refresh-does-not-close-the-process")
	sx.Reach("real-background")
}

// Check_Lifecycle: the real InitExportingProcess with its background
// goroutine, the application's sends, ticks, a failing connection and Close,
// under every interleaving of their synchronisation points.
func Check_Lifecycle() {
	proto := []string{"udp", "tcp"}[sx.Choose("protocol", 2)]
	conn := &common.FakeConn{}
	sx.RegisterConn(conn)
	ep, err := exporter.InitExportingProcess(exporter.ExporterInput{CollectorAddress: "10.0.0.9:4739", CollectorProtocol: proto, ObservationDomainID: 7, TempRefTimeout: 1})
	sx.Settle() // the background goroutine reaches its select
	sx.Assert(err == nil && sx.NumTickers() == 1, "init")
	_, err = ep.SendSet(common.TemplateSet(300, kinds))
	sx.Assert(err == nil, "template")
	tplMsg := conn.Writes[0]
	trouble := sx.Choose("connectionTrouble", 2) == 1
	if trouble {
		// UDP: the next write fails; TCP: the collector closed its side
		conn.FailWrite = proto == "udp"
		conn.PeerEOF = proto == "tcp"
	}
	// the interval passes while the application sends a data set
	sx.FireTicker(0)
	recs := common.DrawRecords(kinds, 1)
	_, errData := ep.SendSet(common.DataSet(300, recs))
	sx.Settle()
	if !trouble {
		sx.Assert(errData == nil, "data-send-fails-on-a-healthy-connection")
		// every Write is one whole, well-formed message: the application's data
		// message and (UDP) the refreshed template, in either order, never intermixed
		nTpl, nData := 0, 0
		for _, w := range conn.Writes[1:] {
			sx.Assert(len(w) >= 20 && int(ref.GetU16(w, 2)) == len(w) && ref.GetU16(w, 0) == 10 && ref.GetU32(w, 12) == 7, "write-is-not-one-whole-message")
			if ref.GetU16(w, 16) == 2 {
				sx.Assert(sx.EqBytes(w[16:], tplMsg[16:]), "refreshed-template-differs-from-original")
				nTpl++
			} else {
				want := common.RefMessage(ref.GetU32(w, 4), 1, 7, common.RefDataSet(300, recs))
				sx.Assert(sx.EqBytes(w, want), "data-message-corrupted-by-background-work")
				nData++
			}
		}
		sx.Assert(nData == 1, "data-message-count")
		if proto == "udp" {
			sx.Assert(nTpl == 1, "template-not-retransmitted-when-the-interval-passed")
		} else {
			sx.Assert(nTpl == 0, "template-refresh-over-tcp")
		}
		sx.Reach("healthy")
	} else {
		// the background goroutine has closed the process: sends fail instead of vanishing
		sx.Assert(conn.Closed == 1, "trouble-not-noticed-within-the-interval")
		before := len(conn.Writes)
		_, err = ep.SendSet(common.TemplateSet(301, kinds))
		sx.Assert(err != nil && len(conn.Writes) == before, "send-after-background-close-does-not-fail")
		sx.Reach("closed-by-background")
	}
	// Close from the application: returns, idempotent, stops the background work
	ep.CloseConnToCollector()
	ep.CloseConnToCollector()
	sx.Assert(conn.Closed == 1, "connection-closed-other-than-exactly-once")
	sx.Assert(sx.LiveGoroutines() == 0, "background-goroutine-survives-close")
	before := len(conn.Writes)
	sx.FireTicker(0)
	sx.Settle()
	sx.Assert(len(conn.Writes) == before, "bytes-written-after-close")
	sx.Reach("lifecycle-done")
}

// Check_RefreshInterval: virtual time.  Over UDP every template sent so far
// is retransmitted each refresh interval, whatever else the application sends
// in between: a template sent at time 0 has been retransmitted by the time one
// interval has passed, even if other templates (or data) were sent meanwhile.
func Check_RefreshInterval() {
	const interval = 10 // seconds
	conn := &common.FakeConn{}
	sx.RegisterConn(conn)
	ep, err := exporter.InitExportingProcess(exporter.ExporterInput{CollectorAddress: "10.0.0.9:4739", CollectorProtocol: "udp", ObservationDomainID: 7, TempRefTimeout: interval})
	sx.Settle()
	sx.Assert(err == nil && sx.NumTickers() == 1, "init")
	count := func(id uint16) int {
		n := 0
		for _, w := range conn.Writes {
			if len(w) >= 22 && ref.GetU16(w, 16) == 2 && ref.GetU16(w, 20) == id {
				n++
			}
		}
		return n
	}
	_, err = ep.SendSet(common.TemplateSet(300, kinds))
	sx.Assert(err == nil, "template")
	// the application keeps sending while the interval runs: more templates, or data
	later := sx.Range("sendsDuringTheInterval", 0, 2)
	what := sx.Choose("whatIsSent", 2)
	step := int64(interval) * 1e9 / 10
	elapsed := int64(0)
	for i := 0; i < later; i++ {
		sx.AdvanceTime(3 * step)
		elapsed += 3 * step
		sx.Settle()
		if what == 0 {
			_, err = ep.SendSet(common.TemplateSet(uint16(301+i), kinds))
		} else {
			_, err = ep.SendSet(common.DataSet(300, common.DrawRecords(kinds, 1)))
		}
		sx.Assert(err == nil, "later-send")
	}
	sx.Assert(count(300) == 1, "template-retransmitted-before-the-interval-passed")
	sx.AdvanceTime(int64(interval)*1e9 - elapsed)
	sx.Settle()
	sx.Assert(count(300) == 2, "template-not-retransmitted-within-one-refresh-interval")
	sx.AdvanceTime(int64(interval) * 1e9)
	sx.Settle()
	sx.Assert(count(300) == 3, "template-not-retransmitted-in-the-second-interval")
	if later > 0 && what == 0 {
		sx.Assert(count(301) >= 2, "later-template-not-retransmitted")
		sx.Reach("several-templates")
	}
	ep.CloseConnToCollector()
	sx.Assert(sx.TickerStopped(0), "ticker-left-running-after-close")
	sx.Reach("intervals")
}

// Check_Contracts: sequential contracts of the background bodies.
func Check_Contracts() {
	domain := sx.U32("domain")
	conn := &common.FakeConn{}
	ep := exporter.VerifNewExportingProcess(conn, domain)
	j := sx.Range("templatesSent", 0, 3)
	ids := make([]uint16, j)
	for i := range ids {
		ids[i] = uint16(300 + i)
		_, err := ep.SendSet(common.TemplateSet(ids[i], kinds[:1+i%2]))
		sx.Assert(err == nil, "template")
	}
	nrec := sx.Range("dataRecords", 0, 2)
	if nrec > 0 && j > 0 {
		_, err := ep.SendSet(common.DataSet(ids[0], common.DrawRecords(kinds[:1], nrec)))
		sx.Assert(err == nil, "data")
	}
	before := len(conn.Writes)
	switch sx.Choose("scenario", 3) {
	case 0: // one refresh tick: every template sent so far is retransmitted, well-formed, one Write each
		sx.Assert(ep.VerifSendRefreshedTemplates() == nil, "refresh-no-error")
		sx.Assert(len(conn.Writes) == before+j, "refresh-retransmits-every-template-once")
		seen := make([]bool, j)
		for _, w := range conn.Writes[before:] {
			sx.Assert(len(w) >= 24 && int(ref.GetU16(w, 2)) == len(w), "refreshed-message-length")
			id := ref.GetU16(w, 20)
			ok := false
			for i := range ids {
				if ids[i] == id {
					sx.Assert(!seen[i], "template-retransmitted-twice")
					seen[i] = true
					want := common.RefMessage(ref.GetU32(w, 4), ref.GetU32(w, 8), domain, common.RefTemplateSet(id, kinds[:1+i%2]))
					sx.Assert(sx.EqBytes(w, want), "refreshed-template-differs-from-original")
					ok = true
				}
			}
			sx.Assert(ok, "refresh-sent-unknown-template")
			// template messages never advance the sequence number
			sx.Assert(ref.GetU32(w, 8) == ep.VerifSeq(), "refresh-sequence-number")
		}
		sx.Reach("refreshed")
	case 1: // the peer closed: the check notices, closes, and later sends fail instead of vanishing
		conn.PeerEOF = true
		sx.Assert(!ep.VerifCheckConn(), "peer-close-not-noticed")
		ep.VerifCloseInternal()
		sx.Assert(conn.Closed == 1, "connection-not-closed")
		n, err := ep.SendSet(common.TemplateSet(777, kinds))
		sx.Assert(err != nil, "send-after-close-reports-success")
		sx.Assert(n == 0 && len(conn.Writes) == before, "bytes-written-after-close")
		ep.CloseConnToCollector()
		ep.CloseConnToCollector()
		sx.Assert(conn.Closed == 1, "close-not-idempotent")
		sx.Reach("peer-closed")
	case 2: // a healthy connection is left alone; closing twice is a no-op
		sx.Assert(ep.VerifCheckConn(), "healthy-connection-reported-closed")
		sx.Assert(conn.Closed == 0, "healthy-connection-closed")
		ep.CloseConnToCollector()
		ep.CloseConnToCollector()
		sx.Assert(conn.Closed == 1, "close-not-idempotent")
		_, err := ep.SendSet(common.TemplateSet(778, kinds))
		sx.Assert(err != nil && len(conn.Writes) == before, "bytes-written-after-close")
		sx.Assert(ep.VerifSendRefreshedTemplates() != nil || j == 0, "refresh-after-close-reports-success")
		sx.Assert(len(conn.Writes) == before, "refresh-wrote-after-close")
		sx.Reach("closed-twice")
	}
}

// Check_ConcurrentClose: CloseConnToCollector from two goroutines at once (and
// a background body closing at the same time), under EVERY interleaving of
// their synchronisation points (atomic operations, channel close, WaitGroup):
// no panic, the connection is closed exactly once, every caller returns.
func Check_ConcurrentClose() {
	conn := &common.FakeConn{}
	ep := exporter.VerifNewExportingProcess(conn, 1)
	second := sx.Choose("secondCloser", 2) // 0: CloseConnToCollector, 1: the internal close a background goroutine performs
	var wg sync.WaitGroup
	wg.Add(2)
	go func() {
		defer wg.Done()
		ep.CloseConnToCollector()
	}()
	go func() {
		defer wg.Done()
		if second == 0 {
			ep.CloseConnToCollector()
		} else {
			ep.VerifCloseInternal()
		}
	}()
	wg.Wait()
	sx.Assert(conn.Closed == 1, "connection-closed-other-than-exactly-once")
	_, err := ep.SendSet(common.TemplateSet(300, kinds))
	sx.Assert(err != nil && len(conn.Writes) == 0, "bytes-written-after-close")
	sx.Reach("both-returned")
}

var Table = map[string]runner.Entry{
	"Check_Contracts": {Setup: Setup, Fn: Check_Contracts},
}
