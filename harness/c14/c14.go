// Package c14: exporter background activity and lifecycle never corrupt the
// stream (property C14; PARTIAL: lock discipline of the bodies the background
// goroutines run + their sequential contracts; ticker loops, timing and real
// scheduling are not decidable here).
package c14

import (
	"sync"

	"github.com/vmware/go-ipfix/pkg/exporter"

	"verifh/common"
	"verifh/ref"
	"verifh/runner"
	"verifh/sx"
)

func Setup() { common.Setup() }

var kinds = []common.Kind{common.KU32, common.KString}

// Check_Lockset: every entry point a goroutine of the exporting process can
// run, under the access monitor, with a role per goroutine:
//
//	app       - the application's single goroutine calling SendSet
//	refresher - the UDP template refresh tick: sendRefreshedTemplates
//	checker   - the TCP connection check tick: checkConnToCollector (+ close)
//	closer    - CloseConnToCollector from any goroutine, possibly repeated
func Check_Lockset() {
	conn := &common.FakeConn{}
	ep := exporter.VerifNewExportingProcess(conn, sx.U32("domain"))
	sx.MonitorIgnore(conn)
	// some history first (unmonitored): 0..2 templates already sent
	j := sx.Range("templatesSent", 0, 2)
	for i := 0; i < j; i++ {
		_, err := ep.SendSet(common.TemplateSet(uint16(300+i), kinds))
		sx.Assert(err == nil, "history-template")
	}
	switch sx.Choose("entryPoint", 6) {
	case 0:
		sx.MonitorBegin("app", false, ep)
		ep.SendSet(common.TemplateSet(400, kinds))
		sx.MonitorEnd()
	case 1:
		id := uint16(300)
		if j == 0 {
			id = 999 // unknown template: the refusal path
		}
		recs := common.DrawRecords(kinds, sx.Range("nrec", 1, 2))
		sx.MonitorBegin("app", false, ep)
		ep.SendSet(common.DataSet(id, recs))
		sx.MonitorEnd()
	case 2:
		conn.FailWrite = sx.Choose("writeFails", 2) == 1
		sx.MonitorBegin("refresher", false, ep)
		ep.VerifSendRefreshedTemplates()
		sx.MonitorEnd()
	case 3:
		conn.PeerEOF = sx.Choose("peerClosed", 2) == 1
		sx.MonitorBegin("checker", false, ep)
		if !ep.VerifCheckConn() {
			ep.VerifCloseInternal()
		}
		sx.MonitorEnd()
	case 4:
		sx.MonitorBegin("closer", true, ep)
		ep.CloseConnToCollector()
		sx.MonitorEnd()
	case 5:
		sx.MonitorBegin("app", false, ep)
		ep.NewTemplateID()
		sx.MonitorEnd()
	}
	sx.Reach("entry-point-done")
}

// Check_Contracts: sequential contracts of the background bodies.
func Check_Contracts() {
	domain := sx.U32("domain")
	conn := &common.FakeConn{}
	ep := exporter.VerifNewExportingProcess(conn, domain)
	j := sx.Range("templatesSent", 0, 3)
	ids := make([]uint16, j)
	for i := range ids {
		ids[i] = uint16(300 + i)
		_, err := ep.SendSet(common.TemplateSet(ids[i], kinds[:1+i%2]))
		sx.Assert(err == nil, "template")
	}
	nrec := sx.Range("dataRecords", 0, 2)
	if nrec > 0 && j > 0 {
		_, err := ep.SendSet(common.DataSet(ids[0], common.DrawRecords(kinds[:1], nrec)))
		sx.Assert(err == nil, "data")
	}
	before := len(conn.Writes)
	switch sx.Choose("scenario", 3) {
	case 0: // one refresh tick: every template sent so far is retransmitted, well-formed, one Write each
		sx.Assert(ep.VerifSendRefreshedTemplates() == nil, "refresh-no-error")
		sx.Assert(len(conn.Writes) == before+j, "refresh-retransmits-every-template-once")
		seen := make([]bool, j)
		for _, w := range conn.Writes[before:] {
			sx.Assert(len(w) >= 24 && int(ref.GetU16(w, 2)) == len(w), "refreshed-message-length")
			id := ref.GetU16(w, 20)
			ok := false
			for i := range ids {
				if ids[i] == id {
					sx.Assert(!seen[i], "template-retransmitted-twice")
					seen[i] = true
					want := common.RefMessage(ref.GetU32(w, 4), ref.GetU32(w, 8), domain, common.RefTemplateSet(id, kinds[:1+i%2]))
					sx.Assert(sx.EqBytes(w, want), "refreshed-template-differs-from-original")
					ok = true
				}
			}
			sx.Assert(ok, "refresh-sent-unknown-template")
			// template messages never advance the sequence number
			sx.Assert(ref.GetU32(w, 8) == ep.VerifSeq(), "refresh-sequence-number")
		}
		sx.Reach("refreshed")
	case 1: // the peer closed: the check notices, closes, and later sends fail instead of vanishing
		conn.PeerEOF = true
		sx.Assert(!ep.VerifCheckConn(), "peer-close-not-noticed")
		ep.VerifCloseInternal()
		sx.Assert(conn.Closed == 1, "connection-not-closed")
		n, err := ep.SendSet(common.TemplateSet(777, kinds))
		sx.Assert(err != nil, "send-after-close-reports-success")
		sx.Assert(n == 0 && len(conn.Writes) == before, "bytes-written-after-close")
		ep.CloseConnToCollector()
		ep.CloseConnToCollector()
		sx.Assert(conn.Closed == 1, "close-not-idempotent")
		sx.Reach("peer-closed")
	case 2: // a healthy connection is left alone; closing twice is a no-op
		sx.Assert(ep.VerifCheckConn(), "healthy-connection-reported-closed")
		sx.Assert(conn.Closed == 0, "healthy-connection-closed")
		ep.CloseConnToCollector()
		ep.CloseConnToCollector()
		sx.Assert(conn.Closed == 1, "close-not-idempotent")
		_, err := ep.SendSet(common.TemplateSet(778, kinds))
		sx.Assert(err != nil && len(conn.Writes) == before, "bytes-written-after-close")
		sx.Assert(ep.VerifSendRefreshedTemplates() != nil || j == 0, "refresh-after-close-reports-success")
		sx.Assert(len(conn.Writes) == before, "refresh-wrote-after-close")
		sx.Reach("closed-twice")
	}
}

// Check_ConcurrentClose: CloseConnToCollector from two goroutines at once (and
// a background body closing at the same time), under EVERY interleaving of
// their synchronisation points (atomic operations, channel close, WaitGroup):
// no panic, the connection is closed exactly once, every caller returns.
func Check_ConcurrentClose() {
	conn := &common.FakeConn{}
	ep := exporter.VerifNewExportingProcess(conn, 1)
	second := sx.Choose("secondCloser", 2) // 0: CloseConnToCollector, 1: the internal close a background goroutine performs
	var wg sync.WaitGroup
	wg.Add(2)
	go func() {
		defer wg.Done()
		ep.CloseConnToCollector()
	}()
	go func() {
		defer wg.Done()
		if second == 0 {
			ep.CloseConnToCollector()
		} else {
			ep.VerifCloseInternal()
		}
	}()
	wg.Wait()
	sx.Assert(conn.Closed == 1, "connection-closed-other-than-exactly-once")
	_, err := ep.SendSet(common.TemplateSet(300, kinds))
	sx.Assert(err != nil && len(conn.Writes) == 0, "bytes-written-after-close")
	sx.Reach("both-returned")
}

var Table = map[string]runner.Entry{
	"Check_Contracts": {Setup: Setup, Fn: Check_Contracts},
}
