module verifh

go 1.23.0

require github.com/vmware/go-ipfix v0.0.0

replace github.com/vmware/go-ipfix => /repo
