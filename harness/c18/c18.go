// Package c18: encrypted transports authenticate the peer and never fall back
// to plaintext (property C18) - the CONFIGURATION CONTRACT only: which
// dial/listen function go-ipfix calls and with which configuration.
// Handshakes, X.509 path building, validity and name checks are crypto/tls,
// crypto/x509 and pion/dtls and are trusted given such a configuration.
package c18

import (
	"crypto/tls"
	"crypto/x509"
	"errors"
	"net"
	"time"

	"github.com/pion/dtls/v2"

	"github.com/vmware/go-ipfix/pkg/collector"
	"github.com/vmware/go-ipfix/pkg/exporter"

	"verifh/common"
	"verifh/runner"
	"verifh/sx"
)

func Setup() { common.Setup() }

const (
	fnTLSDial    = "crypto/tls.Dial"
	fnDTLSDial   = "github.com/pion/dtls/v2.Dial"
	fnNetDial    = "net.Dial"
	fnTLSListen  = "crypto/tls.Listen"
	fnDTLSListen = "github.com/pion/dtls/v2.Listen"
	fnNetListen  = "net.Listen"
	fnListenUDP  = "net.ListenUDP"
)

var caPEM = []byte("-----BEGIN CERTIFICATE-----\nthe-configured-CA\n-----END CERTIFICATE-----\n")

// Check_Exporter: InitExportingProcess under every combination of protocol,
// TLS settings present/absent, client certificate present/absent, CA parses
// or not, key pair parses or not, with a symbolic ServerName.
func Check_Exporter() {
	proto := []string{"tcp", "udp"}[sx.Choose("protocol", 2)]
	hasTLS := sx.Choose("tlsConfigured", 2) == 1
	in := exporter.ExporterInput{CollectorAddress: "192.0.2.1:4739", CollectorProtocol: proto, ObservationDomainID: 1}
	in.IsIPv6 = sx.Choose("isIPv6", 2) == 1
	in.SendJSONRecord = sx.Choose("sendJSON", 2) == 1
	if in.IsIPv6 {
		in.CollectorAddress = "[2001:db8::1]:4739"
	}
	var serverName string
	hasCert := false
	if hasTLS {
		serverName = sx.Str("serverName", []int{0, 6}[sx.Choose("serverNameLen", 2)])
		cfg := &exporter.ExporterTLSClientConfig{ServerName: serverName, CAData: caPEM}
		hasCert = sx.Choose("clientCert", 2) == 1
		if hasCert {
			cfg.CertData, cfg.KeyData = []byte("cert"), []byte("key")
		}
		in.TLSClientConfig = cfg
	}
	ep, err := exporter.InitExportingProcess(in)
	nTLS, nDTLS, nPlain := sx.StubCount(fnTLSDial), sx.StubCount(fnDTLSDial), sx.StubCount(fnNetDial)
	if !hasTLS {
		sx.Assert(nTLS == 0 && nDTLS == 0, "tls-used-without-configuration")
		sx.Assert(nPlain+sx.StubCount("net.DialTCP")+sx.StubCount("net.DialUDP")+sx.StubCount("net.DialTimeout") == 1 && err == nil && ep != nil, "plaintext-exporter")
		sx.Reach("plaintext")
		return
	}
	// security settings present: never an unencrypted session
	sx.Assert(nPlain == 0 && sx.StubCount("net.DialTCP") == 0 && sx.StubCount("net.DialUDP") == 0 && sx.StubCount("net.DialTimeout") == 0, "plaintext-dial-although-tls-is-configured")
	if err != nil {
		sx.Assert(ep == nil, "process-returned-with-error")
		sx.Assert(nTLS == 0 && nDTLS == 0, "dialled-although-configuration-failed")
		sx.Reach("configuration-error")
		return
	}
	if proto == "tcp" {
		sx.Assert(nTLS == 1 && nDTLS == 0, "tcp-with-tls-must-use-tls.Dial")
		cfg := sx.StubArg(fnTLSDial, 0, 2).(*tls.Config)
		sx.Assert(cfg != nil, "nil-tls-config")
		sx.Assert(!cfg.InsecureSkipVerify, "InsecureSkipVerify-set")
		sx.Assert(cfg.RootCAs != nil, "system-roots-instead-of-configured-CA")
		sx.Assert(sx.PoolHas(cfg.RootCAs, caPEM), "RootCAs-is-not-exactly-the-configured-CA")
		// 0 = the library default, which is TLS 1.2 for the Go release this module targets (go 1.23)
		sx.Assert(cfg.MinVersion == 0 || cfg.MinVersion >= tls.VersionTLS12, "MinVersion-below-TLS1.2")
		sx.Assert(cfg.MaxVersion == 0 || cfg.MaxVersion >= tls.VersionTLS12, "MaxVersion-below-TLS1.2")
		sx.Assert(cfg.ServerName == serverName, "ServerName-not-passed-through")
		if cfg.Time != nil {
			// certificate validity periods are evaluated at the present instant
			d := cfg.Time().Sub(time.Now())
			sx.Assert(d > -time.Second && d < time.Second, "certificate-validity-evaluated-at-another-instant-than-now")
		}
		if hasCert {
			sx.Assert(len(cfg.Certificates) == 1 || cfg.GetClientCertificate != nil, "client-certificate-not-presented")
		}
		sx.Reach("tls")
		rotateCA(in, fnTLSDial)
		return
	}
	sx.Assert(nDTLS == 1 && nTLS == 0, "udp-with-tls-must-use-dtls.Dial")
	dcfg := sx.StubArg(fnDTLSDial, 0, 2).(*dtls.Config)
	sx.Assert(dcfg != nil, "nil-dtls-config")
	sx.Assert(!dcfg.InsecureSkipVerify, "InsecureSkipVerify-set")
	sx.Assert(dcfg.RootCAs != nil, "system-roots-instead-of-configured-CA")
	sx.Assert(sx.PoolHas(dcfg.RootCAs, caPEM), "RootCAs-is-not-exactly-the-configured-CA")
	sx.Assert(dcfg.ServerName == serverName, "ServerName-not-passed-through")
	sx.Assert(dcfg.PSK == nil, "psk-instead-of-certificates")
	if serverName == "" {
		// ServerName unset: the collector's certificate is checked against the host
		// used to contact it (documented on ExporterTLSClientConfig; tls.Dial does it
		// by itself).  The DTLS library verifies the name only when Config.ServerName
		// is a non-empty DNS name - for an empty name or an IP literal it skips the
		// check - so the configuration must carry a verification callback that
		// refuses a verified chain whose leaf is for another host.
		host := "192.0.2.1"
		if in.IsIPv6 {
			host = "2001:db8::1"
		}
		libraryChecks := dcfg.ServerName != "" && net.ParseIP(dcfg.ServerName) == nil
		if !libraryChecks {
			sx.Assert(dcfg.VerifyPeerCertificate != nil, "dtls-collector-name-not-verified-when-ServerName-is-unset")
			other := &x509.Certificate{DNSNames: []string{"some-other-host.example"}}
			right := &x509.Certificate{IPAddresses: []net.IP{net.ParseIP(host)}}
			sx.Assert(dcfg.VerifyPeerCertificate(nil, [][]*x509.Certificate{{other}}) != nil, "dtls-certificate-for-another-host-accepted")
			sx.Assert(dcfg.VerifyPeerCertificate(nil, [][]*x509.Certificate{{right}}) == nil, "dtls-certificate-for-the-contacted-address-refused")
		}
		sx.Reach("dtls-name-unset")
	}
	sx.Reach("dtls")
	rotateCA(in, fnDTLSDial)
}

var caPEM2 = []byte("-----BEGIN CERTIFICATE-----\nthe-CA-configured-later\n-----END CERTIFICATE-----\n")

// rotateCA: the application replaces the CA in the SAME settings object and
// initialises again: the second session trusts exactly the new CA.
func rotateCA(in exporter.ExporterInput, dialFn string) {
	in.TLSClientConfig.CAData = caPEM2
	ep, err := exporter.InitExportingProcess(in)
	if err != nil {
		sx.Assert(ep == nil, "process-returned-with-error")
		return
	}
	sx.Assert(sx.StubCount(dialFn) == 2, "second-session-dial")
	if dialFn == fnTLSDial {
		cfg := sx.StubArg(fnTLSDial, 1, 2).(*tls.Config)
		sx.Assert(cfg != nil && cfg.RootCAs != nil && sx.PoolHas(cfg.RootCAs, caPEM2), "second-session-does-not-trust-exactly-the-CA-configured-now")
	} else {
		cfg := sx.StubArg(fnDTLSDial, 1, 2).(*dtls.Config)
		sx.Assert(cfg != nil && cfg.RootCAs != nil && sx.PoolHas(cfg.RootCAs, caPEM2), "second-session-does-not-trust-exactly-the-CA-configured-now")
	}
	sx.Reach("ca-rotated")
}

// Check_Collector: Start() under every combination of protocol, encryption
// flag, client CA present/absent, PEM / key pair parsing outcomes.
func Check_Collector() {
	proto := []string{"tcp", "udp"}[sx.Choose("protocol", 2)]
	enc := sx.Choose("isEncrypted", 2) == 1
	hasCA := sx.Choose("clientCA", 2) == 1
	in := collector.CollectorInput{Address: "127.0.0.1:4739", Protocol: proto, IsEncrypted: enc, MaxBufferSize: 1024, ServerCert: []byte("cert"), ServerKey: []byte("key")}
	if hasCA {
		in.CACert = caPEM
	}
	cp, err := collector.InitCollectingProcess(in)
	sx.Assert(err == nil && cp != nil, "init")
	// tls.Listen / dtls.Listen / net.ListenUDP are recorders that fail, so Start
	// returns.  net.Listen succeeds with an in-memory listener, so that a server
	// built as tls.NewListener(net.Listen(...)) can be followed: what matters is
	// on which listener connections are accepted.
	plain := &countingListener{closed: make(chan struct{})}
	wrapped := &countingListener{closed: make(chan struct{})}
	if enc && proto == "tcp" {
		sx.RegisterListener(plain)
		sx.RegisterTLSListener(wrapped)
	}
	done := make(chan struct{})
	go func() { cp.Start(); close(done) }()
	sx.Settle()
	cp.Stop()
	<-done
	nTLS, nDTLS, nPlain, nUDP := sx.StubCount(fnTLSListen), sx.StubCount(fnDTLSListen), sx.StubCount(fnNetListen), sx.StubCount(fnListenUDP)
	if enc && proto == "tcp" && nPlain > 0 {
		// a TLS server on top of a plain listener: acceptable exactly if nothing is
		// ever accepted on the plain listener and the wrapper got the configuration
		sx.Assert(nTLS == 0 && nDTLS == 0 && nUDP == 0 && nPlain == 1, "wrong-listener")
		sx.Assert(plain.accepts == 0, "connections-accepted-in-plaintext-although-encryption-is-configured")
		if sx.StubCount(fnTLSNewListener) == 0 {
			sx.Assert(wrapped.accepts == 0, "wrong-listener")
			sx.Reach("configuration-error")
			return
		}
		cfg := sx.StubArg(fnTLSNewListener, 0, 1).(*tls.Config)
		checkServerConfig(cfg, hasCA)
		sx.Reach("tls")
		return
	}
	if !enc {
		sx.Assert(nTLS == 0 && nDTLS == 0, "tls-used-without-configuration")
		sx.Assert(nPlain+nUDP == 1, "plaintext-listener")
		sx.Reach("plaintext")
		return
	}
	sx.Assert(nPlain == 0 && nUDP == 0, "plaintext-listener-although-encryption-is-configured")
	if proto == "tcp" {
		sx.Assert(nDTLS == 0, "wrong-listener")
		if nTLS == 0 {
			sx.Reach("configuration-error")
			return
		}
		cfg := sx.StubArg(fnTLSListen, 0, 2).(*tls.Config)
		checkServerConfig(cfg, hasCA)
		sx.Reach("tls")
		return
	}
	sx.Assert(nTLS == 0, "wrong-listener")
	if nDTLS == 0 {
		sx.Reach("configuration-error")
		return
	}
	dcfg := sx.StubArg(fnDTLSListen, 0, 2).(*dtls.Config)
	sx.Assert(dcfg != nil && len(dcfg.Certificates) == 1, "dtls-server-certificate")
	sx.Assert(dcfg.PSK == nil, "psk-instead-of-certificates")
	sx.Reach("dtls")
}

const fnTLSNewListener = "crypto/tls.NewListener"

func checkServerConfig(cfg *tls.Config, hasCA bool) {
	sx.Assert(cfg != nil, "nil-tls-config")
	sx.Assert(cfg.MinVersion == 0 || cfg.MinVersion >= tls.VersionTLS12, "MinVersion-below-TLS1.2")
	sx.Assert(len(cfg.Certificates) == 1 || cfg.GetCertificate != nil, "server-certificate")
	if hasCA {
		sx.Assert(cfg.ClientAuth == tls.RequireAndVerifyClientCert, "client-CA-configured-but-client-certificates-not-required")
		sx.Assert(cfg.ClientCAs != nil && sx.PoolHas(cfg.ClientCAs, caPEM), "ClientCAs-is-not-exactly-the-configured-CA")
		sx.Reach("tls-client-auth")
	}
}

// countingListener: an in-memory net.Listener that counts Accept calls and
// blocks them until it is closed.
type countingListener struct {
	accepts int
	closed  chan struct{}
	nClose  int
}

var errListenerClosed = errors.New("listener closed")

func (l *countingListener) Accept() (net.Conn, error) {
	l.accepts++
	<-l.closed
	return nil, errListenerClosed
}
func (l *countingListener) Close() error {
	l.nClose++
	if l.nClose == 1 {
		close(l.closed)
	}
	return nil
}
func (l *countingListener) Addr() net.Addr { return listenerAddr{} }

type listenerAddr struct{}

func (listenerAddr) Network() string { return "tcp" }
func (listenerAddr) String() string  { return "127.0.0.1:4739" }

var Table = map[string]runner.Entry{
	"Check_Exporter":  {Setup: Setup, Fn: Check_Exporter},
	"Check_Collector": {Setup: Setup, Fn: Check_Collector},
}
