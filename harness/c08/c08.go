// Package c08: exporter sequence numbers and header bookkeeping (property C08).
package c08

import (
	"time"

	"github.com/vmware/go-ipfix/pkg/entities"
	"github.com/vmware/go-ipfix/pkg/exporter"

	"verifh/common"
	"verifh/ref"
	"verifh/runner"
	"verifh/sx"
)

func Setup() { common.Setup() }

// Check_SeqStep: from an arbitrary 32-bit counter state (so the 2^32 wrap is
// just another value) a sequence of 1..3 successful sends, each a template or a
// data message of 1..3 records.  After every send: header sequence and stored
// counter equal the records sent so far modulo 2^32 (templates never advance
// it); configured observation domain; export time is the wall-clock second of
// sending; exactly one Write whose length is the returned count and the
// header's length field.
func Check_SeqStep() { seqStep(false) }

// Check_SeqStepFixedClock: the same steps with a concrete clock that stands
// 600 ms into a second (engine: fixed instants; native: the harness waits for
// that part of the second), so that an export time that is rounded instead of
// truncated shows.
func Check_SeqStepFixedClock() { seqStep(true) }

func waitForLateHalf() {
	for {
		ns := time.Now().Nanosecond()
		if ns >= 550_000_000 && ns <= 800_000_000 {
			return
		}
		time.Sleep(20 * time.Millisecond)
	}
}

func seqStep(fixedClock bool) {
	s0 := sx.U32("seq0")
	domain := sx.U32("domain")
	conn := &common.FakeConn{}
	ep := exporter.VerifNewExportingProcess(conn, domain)
	ep.VerifSetSeq(s0)
	kinds := []common.Kind{common.KU32, common.KString}
	const tplID = 400
	// the template must be known before data can be sent
	_, err := ep.SendSet(common.TemplateSet(tplID, kinds))
	sx.Assert(err == nil, "setup-template")
	sx.Assert(ep.VerifSeq() == s0, "template-does-not-advance")

	dataSet := entities.NewSet(false)
	steps := 1
	if sx.Tier() > 0 {
		steps = 3
	} else {
		steps = 2
	}
	steps = sx.Range("steps", 1, steps)
	expected := s0
	for i := 0; i < steps; i++ {
		before := len(conn.Writes)
		kind := sx.Choose("kind", 3)
		isData := kind == 1
		if fixedClock && sx.Native() {
			waitForLateHalf()
		}
		t0 := time.Now()
		var n int
		if kind == 2 {
			// a template refresh tick (UDP): its messages obey the same bookkeeping
			err = ep.VerifSendRefreshedTemplates()
			t1 := time.Now()
			sx.Assert(err == nil, "refresh-ok")
			sx.Assert(len(conn.Writes) == before+1, "refresh-one-message-per-template")
			w := conn.Writes[before]
			sx.Assert(sx.And(ref.GetU16(w, 0) == 10, int(ref.GetU16(w, 2)) == len(w), ref.GetU32(w, 8) == expected, ref.GetU32(w, 12) == domain), "refreshed-template-header")
			et := int64(ref.GetU32(w, 4))
			sx.Assert(sx.And(et >= t0.Unix(), et <= t1.Unix()), "export-time-is-wall-clock-second")
			sx.Assert(ep.VerifSeq() == expected, "refresh-does-not-advance")
			sx.Reach("refresh")
			continue
		}
		// the connection may accept only part of one Write without an error: the
		// send is then either refused (a failed attempt, outside the statement) or
		// completed - and if it reports success the count and the bytes must be right
		short := sx.Choose("connectionAcceptsPartOfTheWrite", 2) == 1
		if short {
			conn.ShortBy = 5
		}
		if isData {
			r := sx.Range("records", 0, 3)
			recs := make([][]common.Val, r)
			for j := range recs {
				recs[j] = []common.Val{common.Draw(common.KU32, "v", 0), common.Draw(common.KString, "s", 1)}
			}
			// the application reuses one set object for all its data sets (ResetSet,
			// PrepareSet, AddRecord), as exporters do
			dataSet.ResetSet()
			n, err = ep.SendSet(common.FillDataSet(dataSet, tplID, recs))
			expected += uint32(r)
			sx.Reach("data")
		} else {
			if sx.Choose("emptyTemplateSet", 2) == 1 {
				// a template set without records is still one message
				es := entities.NewSet(false)
				sx.Assert(es.PrepareSet(entities.Template, tplID) == nil, "prepare")
				n, err = ep.SendSet(es)
				sx.Reach("empty-set")
			} else {
				n, err = ep.SendSet(common.TemplateSet(tplID, kinds))
			}
			sx.Reach("template")
		}
		t1 := time.Now()
		conn.ShortBy = 0
		if short && err != nil {
			sx.Reach("partial-write-refused")
			return
		}
		sx.Assert(err == nil, "send-ok")
		var w []byte
		if short {
			for _, x := range conn.Writes[before:] {
				w = append(w, x...)
			}
		} else {
			sx.Assert(len(conn.Writes) == before+1, "exactly-one-message")
			w = conn.Writes[before]
		}
		sx.Assert(n == len(w), "byte-count-is-bytes-written")
		sx.Assert(int(ref.GetU16(w, 2)) == len(w), "header-length-is-bytes-written")
		sx.Assert(ref.GetU16(w, 0) == 10, "version")
		sx.Assert(ref.GetU32(w, 8) == expected, "header-sequence-number")
		sx.Assert(ep.VerifSeq() == expected, "stored-sequence-number")
		sx.Assert(ref.GetU32(w, 12) == domain, "observation-domain")
		et := int64(ref.GetU32(w, 4))
		sx.Assert(sx.And(et >= t0.Unix(), et <= t1.Unix()), "export-time-is-wall-clock-second")
	}
	if s0 > 0xfffffffa {
		sx.Reach("near-wrap")
	}
}

// Check_ConfiguredDomain: the real InitExportingProcess (its connection is the
// environment's: net.Dial returns the harness's in-memory connection), any
// configured observation domain - 0 and 0xffffffff included -, both plain
// transports: every message carries exactly the configured domain, and the
// bookkeeping starts at sequence number 0.
func Check_ConfiguredDomain() {
	domain := sx.U32("domain")
	proto := []string{"tcp", "udp"}[sx.Choose("protocol", 2)]
	conn := &common.FakeConn{}
	sx.RegisterConn(conn)
	ep, err := exporter.InitExportingProcess(exporter.ExporterInput{
		CollectorAddress: "10.0.0.9:4739", CollectorProtocol: proto, ObservationDomainID: domain,
	})
	sx.Assert(err == nil, "init")
	kinds := []common.Kind{common.KU32, common.KString}
	const tplID = 400
	_, err = ep.SendSet(common.TemplateSet(tplID, kinds))
	sx.Assert(err == nil, "template")
	r := sx.Range("records", 1, 2)
	recs := make([][]common.Val, r)
	for j := range recs {
		recs[j] = []common.Val{common.Draw(common.KU32, "v", 0), common.Draw(common.KString, "s", 1)}
	}
	n, err := ep.SendSet(common.DataSet(tplID, recs))
	sx.Assert(err == nil, "data")
	sx.Assert(len(conn.Writes) == 2, "two-messages")
	for i, w := range conn.Writes {
		sx.Assert(sx.And(ref.GetU16(w, 0) == 10, int(ref.GetU16(w, 2)) == len(w)), "header")
		sx.Assert(ref.GetU32(w, 12) == domain, "message-does-not-carry-the-configured-observation-domain")
		want := uint32(0)
		if i == 1 {
			want = uint32(r)
		}
		sx.Assert(ref.GetU32(w, 8) == want, "sequence-number-from-zero")
	}
	sx.Assert(n == len(conn.Writes[1]), "byte-count")
	ep.CloseConnToCollector()
	sx.Assert(conn.Closed >= 1, "closed")
	sx.Reach("configured-domain")
}

var Table = map[string]runner.Entry{
	"Check_SeqStep":           {Setup: Setup, Fn: Check_SeqStep},
	"Check_SeqStepFixedClock": {Setup: Setup, Fn: Check_SeqStepFixedClock},
}
