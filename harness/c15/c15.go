// Package c15: information-element value codec - exact round trip and length
// accounting (property C15).
package c15

import (
	"github.com/vmware/go-ipfix/pkg/collector"
	"github.com/vmware/go-ipfix/pkg/entities"

	"verifh/common"
	"verifh/ref"
	"verifh/sx"
)

func Setup() { common.Setup() }

const tplID = 256

// lengths explored for variable-length kinds (one path per length).
func varLen() int {
	if sx.Tier() == 0 {
		// 0..40, 250..260, 65530..65535 - index into the union
		i := sx.Range("lenIdx", 0, 41+11+6-1)
		switch {
		case i < 41:
			return i
		case i < 52:
			return 250 + (i - 41)
		default:
			return 65530 + (i - 52)
		}
	}
	i := sx.Range("lenIdx", 0, 1101+36-1)
	if i < 1101 {
		return i
	}
	return 65500 + (i - 1101)
}

// Check_Codec: one element of every supported kind between two sentinels:
// lengths agree, bytes equal the reference encoding, decoding through the
// library's own decoder and through the collector's data-set decoder gives
// the value back and consumes exactly the reported length.
func Check_Codec() {
	k := common.Kind(sx.Choose("kind", int(common.NumKinds)))
	n := 0
	if k.IsVar() {
		n = varLen()
	}
	s1 := common.Draw(common.KU16, "sentinel16", 0)
	v := common.Draw(k, "value", n)
	s2 := common.Draw(common.KU32, "sentinel32", 0)
	bigField := n > 65000 // a field this long cannot share a 65535-byte message with much else

	elems := []entities.InfoElementWithValue{common.Element(s1), common.Element(v), common.Element(s2)}
	set := entities.NewSet(false)
	sx.Assert(set.PrepareSet(entities.Data, tplID) == nil, "prepare")
	sx.Assert(set.AddRecord(elems, tplID) == nil, "addrecord")
	rec := set.GetRecords()[0]
	buf := rec.GetBuffer()

	// length accounting
	want := append(append(append([]byte{}, s1.Enc...), v.Enc...), s2.Enc...)
	sum := elems[0].GetLength() + elems[1].GetLength() + elems[2].GetLength()
	sx.Assert(elems[1].GetLength() == len(v.Enc), "reported-length-is-encoded-length")
	sx.Assert(rec.GetRecordLength() == sum, "record-length-is-sum")
	sx.Assert(len(buf) == rec.GetRecordLength(), "buffer-length-is-record-length")
	sx.Assert(set.GetSetLength() == 4+sum, "set-length")
	// exact bytes: reference encoding
	sx.Assert(sx.EqBytes(buf, want), "bytes-equal-reference-encoding")

	// library decoder on exactly the element's bytes
	off := 2
	payload := buf[off : off+len(v.Enc)]
	if k.IsVar() {
		if n < 255 {
			payload = payload[1:]
		} else {
			payload = payload[3:]
		}
	}
	dec, err := entities.DecodeAndCreateInfoElementWithValue(common.IE(k), payload)
	sx.Assert(err == nil, "decode-no-error")
	sx.Assert(common.Same(v, dec), "decode-roundtrip")
	sx.Reach("decoded")

	// collector: template + data message built by the reference encoder around
	// the library-produced record bytes; consumption must agree (the sentinel
	// after the element decodes intact).
	if bigField {
		sx.Reach("big-field")
		return
	}
	cp, err := collector.VerifNewCollectingProcess(collector.CollectorInput{Protocol: "tcp", Address: "x"}, nil, 4)
	sx.Assert(err == nil, "collector-init")
	tpl := ref.Header(0, 0, 0, 1, 2, 0)
	tpl = ref.U16(tpl, tplID)
	tpl = ref.U16(tpl, 3)
	for _, kk := range []common.Kind{common.KU16, k, common.KU32} {
		ie := common.IE(kk)
		tpl = ref.FieldSpec(tpl, ie.ElementId, ie.Len, ie.EnterpriseId)
	}
	_, err = cp.VerifDecodePacket(tpl, "1.2.3.4:5")
	sx.Assert(err == nil, "template-accepted")
	msg := ref.Header(0, 0, 0, 1, tplID, 0)
	msg = append(msg, buf...)
	m, err := cp.VerifDecodePacket(msg, "1.2.3.4:5")
	sx.Assert(err == nil, "data-accepted")
	recs := m.GetSet().GetRecords()
	sx.Assert(len(recs) == 1, "one-record")
	got := recs[0].GetOrderedElementList()
	sx.Assert(len(got) == 3, "three-fields")
	sx.Assert(common.Same(s1, got[0]), "collector-sentinel-before")
	sx.Assert(common.Same(v, got[1]), "collector-roundtrip")
	sx.Assert(common.Same(s2, got[2]), "collector-sentinel-after")
	sx.Reach("collector-decoded")
	if sx.Symbolic() {
		return
	}
	sx.Observe("buf", int(k), n, buf)
}

// Check_IncrementalRecord: a data record filled element by element through
// the Record API with its buffer read in between: after every addition the
// buffer is exactly the reported length and the reference encoding of all
// elements added so far.
func Check_IncrementalRecord() {
	n := sx.Range("elements", 1, 3)
	rec := entities.NewDataRecord(tplID, 0, sx.Range("spare", 0, 2), false)
	var want []byte
	for i := 0; i < n; i++ {
		pool := []common.Kind{common.KU8, common.KU32, common.KString, common.KMac, common.KOctetVar}
		k := pool[sx.Choose("kind", len(pool))]
		v := common.Draw(k, "value", common.PickLen(k, "len"))
		sx.Assert(rec.AddInfoElement(common.Element(v)) == nil, "add")
		want = append(want, v.Enc...)
		if sx.Choose("readBuffer", 2) == 1 || i == n-1 {
			buf := rec.GetBuffer()
			sx.Assert(rec.GetRecordLength() == len(want), "record-length-is-sum-of-element-lengths")
			sx.Assert(len(buf) == rec.GetRecordLength(), "buffer-length-is-record-length")
			sx.Assert(sx.EqBytes(buf, want), "bytes-equal-reference-encoding")
		}
	}
	sx.Assert(int(rec.GetFieldCount()) == n, "field-count")
	sx.Reach("incremental")
}

// Check_TemplateValue: building the empty-valued element used in templates
// must work for every supported type (decode with a nil value).
func Check_TemplateValue() {
	k := common.Kind(sx.Choose("kind", int(common.NumKinds)))
	e, err := entities.DecodeAndCreateInfoElementWithValue(common.IE(k), nil)
	sx.Assert(err == nil, "nil-value-no-error")
	sx.Assert(e != nil, "nil-value-element")
	sx.Assert(e.IsValueEmpty(), "nil-value-is-empty")
	sx.Reach("built")
	sx.Observe("len", int(k), e.GetLength())
}
