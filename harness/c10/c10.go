// Package c10: UDP template lifetime - usable for the TTL after the last
// refresh, then discarded, under all timer placements (property C10).
package c10

import (
	"time"

	"github.com/vmware/go-ipfix/pkg/collector"

	"verifh/common"
	"verifh/ref"
	"verifh/runner"
	"verifh/sx"
)

func Setup() { common.Setup() }

const ttlSeconds = 30
const ttl = int64(ttlSeconds) * int64(time.Second)

// vclock models the documented time.AfterFunc semantics explicitly
// (DESIGN.md appendix C): a timer is armed(target) or idle; a fired timer's
// callback sits in the pending set until it is run; Stop on an armed timer
// disarms and returns true, on a fired one returns false (the pending
// callback still runs); Reset re-targets / re-arms and leaves a pending
// callback in place; Now() inside a callback returns any instant between the
// firing and the current time.
type vclock struct {
	base    time.Time
	now     int64 // offset from base in ns (symbolic)
	timers  []*vtimer
	pending []*pend
	inCb    bool
	cbNow   int64
	curKey  int
}

type vtimer struct {
	c      *vclock
	armed  bool
	target int64
	f      func()
	key    int
}

type pend struct {
	t       *vtimer
	firedAt int64
}

func (c *vclock) at(off int64) time.Time { return c.base.Add(time.Duration(off)) }

func (c *vclock) Now() time.Time {
	if c.inCb {
		return c.at(c.cbNow)
	}
	return c.at(c.now)
}

func (c *vclock) AfterFunc(d time.Duration, f func()) collector.VerifTimer {
	t := &vtimer{c: c, armed: true, target: c.now + int64(d), f: f, key: c.curKey}
	c.timers = append(c.timers, t)
	return t
}

func (t *vtimer) Stop() bool {
	was := t.armed
	t.armed = false
	return was
}

func (t *vtimer) Reset(d time.Duration) bool {
	was := t.armed
	t.armed = true
	t.target = t.c.now + int64(d)
	return was
}

type key struct {
	dom uint32
	id  uint16
}

var keys = []key{{1, 300}, {1, 301}, {2, 300}}

// templatePkt: definition 0 is one unsigned32; definition 1 (a replacement
// with another field list of the same record size) is two unsigned16.
func templatePkt(k key, def int) []byte {
	pkt := ref.Header(0, 0, 0, k.dom, 2, 0)
	pkt = ref.U16(pkt, k.id)
	if def == 1 {
		pkt = ref.U16(pkt, 2)
		ie := common.IE(common.KU16)
		pkt = ref.FieldSpec(pkt, ie.ElementId, ie.Len, 0)
		return ref.FieldSpec(pkt, 11, 2, 0)
	}
	pkt = ref.U16(pkt, 1)
	ie := common.IE(common.KU32)
	return ref.FieldSpec(pkt, ie.ElementId, ie.Len, 0)
}

func badTemplatePkt(k key) []byte {
	pkt := ref.Header(0, 0, 0, k.dom, 2, 0)
	pkt = ref.U16(pkt, k.id)
	pkt = ref.U16(pkt, 1)
	return append(pkt, 0, 10)
}

func dataPkt(k key, v uint32) []byte {
	pkt := ref.Header(0, 0, 0, k.dom, k.id, 0)
	return ref.U32(pkt, v)
}

type ghost struct {
	stored bool
	t0     int64
	def    int
}

// Check_Schedule: all schedules of depth k over {template/refresh, bad
// template, data, advance by a symbolic d >= 0, fire a due timer, run a
// pending callback}.
func Check_Schedule() {
	nkeys, k := 2, 5
	if sx.Tier() > 0 && sx.Choose("family", 2) == 1 {
		// thorough: besides depth 5 on two keys, depth 7 on one key (depth 6 on two
		// keys is 0.74 M schedules and 10 minutes on its own)
		nkeys, k = 1, 7
	}
	nkeys = sx.Param("keys", nkeys)
	k = sx.Param("k", k)
	schedule(nkeys, k, nil, false)
}

// Check_ScheduleDTLS: UDP with DTLS is still a datagram transport without
// template feedback: the same lifetime rules, explored on one key.
func Check_ScheduleDTLS() {
	k := 5
	if sx.Tier() > 0 {
		k = 6
	}
	schedule(1, sx.Param("k", k), []int{0, 3}, true)
}

// Check_ScheduleAfterLifetime: the same exploration one level deeper for the
// schedules that matter most: they start with a template for the first key and
// an arbitrary amount of time passing, then 5 (quick) / 6 (thorough) free events.
func Check_ScheduleAfterLifetime() {
	k := 6
	if sx.Tier() > 0 {
		k = 7
	}
	schedule(2, sx.Param("k", k), []int{0, 3}, false)
}

func schedule(nkeys, k int, forced []int, dtls bool) {
	clk := &vclock{base: time.Now()}
	cp, err := collector.VerifNewCollectingProcess(collector.CollectorInput{Protocol: "udp", Address: "x", TemplateTTL: ttlSeconds, IsEncrypted: dtls}, clk, 16)
	sx.Assert(err == nil, "init")
	g := make([]ghost, nkeys)

	for step := 0; step < k; step++ {
		var ev int
		if step < len(forced) {
			ev = forced[step]
		} else {
			ev = sx.Choose("event", 6)
		}
		switch ev {
		case 0: // template (first transmission, refresh or replacement)
			ki := 0
			if step >= len(forced) {
				ki = sx.Choose("key", nkeys)
			}
			clk.curKey = ki
			def := 0
			if step >= len(forced) {
				def = sx.Choose("definition", 2)
			}
			_, err := cp.VerifDecodePacket(templatePkt(keys[ki], def), "1.2.3.4:5")
			sx.Assert(err == nil, "template-refused")
			if g[ki].stored {
				if g[ki].def != def {
					sx.Reach("replacement")
				}
				sx.Reach("refresh")
			}
			g[ki] = ghost{stored: true, t0: clk.now, def: def}
		case 1: // bad template
			ki := sx.Choose("key", nkeys)
			clk.curKey = ki
			_, err := cp.VerifDecodePacket(badTemplatePkt(keys[ki]), "1.2.3.4:5")
			sx.Assert(err != nil, "bad-template-accepted")
			g[ki].stored = false
		case 2: // data
			ki := sx.Choose("key", nkeys)
			v := sx.U32("value")
			m, err := cp.VerifDecodePacket(dataPkt(keys[ki], v), "1.2.3.4:5")
			if g[ki].stored {
				// never dropped early: usable until its timer has run after the lifetime
				sx.Assert(err == nil, "template-dropped-early")
				el := m.GetSet().GetRecords()[0].GetOrderedElementList()
				if g[ki].def == 0 {
					sx.Assert(len(el) == 1 && el[0].GetUnsigned32Value() == v, "data-decoded-with-the-current-definition")
				} else {
					sx.Assert(len(el) == 2 && el[0].GetUnsigned16Value() == uint16(v>>16), "data-decoded-with-the-current-definition")
				}
				if clk.now >= g[ki].t0+ttl {
					sx.Reach("used-after-ttl-before-timer-ran")
				}
				sx.Reach("data-accepted")
			} else {
				sx.Assert(err != nil, "data-accepted-without-template")
				sx.Reach("data-rejected")
			}
		case 3: // time passes
			d := sx.I64("advance")
			sx.Assume(d >= 0)
			sx.Assume(d <= 100*int64(time.Second))
			clk.now += d
		case 4: // a due timer fires: its callback becomes pending
			var armed []*vtimer
			for _, t := range clk.timers {
				if t.armed {
					armed = append(armed, t)
				}
			}
			if len(armed) == 0 {
				sx.Assume(false)
			}
			t := armed[sx.Choose("timer", len(armed))]
			sx.Assume(t.target <= clk.now)
			t.armed = false
			clk.pending = append(clk.pending, &pend{t, clk.now})
			sx.Reach("fired")
		case 5: // a pending callback runs
			if len(clk.pending) == 0 {
				sx.Assume(false)
			}
			pi := sx.Choose("pending", len(clk.pending))
			p := clk.pending[pi]
			clk.pending = append(clk.pending[:pi:pi], clk.pending[pi+1:]...)
			r := sx.I64("callbackNowReading")
			sx.Assume(r >= p.firedAt)
			sx.Assume(r <= clk.now)
			clk.inCb, clk.cbNow = true, r
			p.t.f()
			clk.inCb = false
			ki := p.t.key
			if g[ki].stored && r >= g[ki].t0+ttl {
				// the lifetime has elapsed without a refresh and the timer has run
				g[ki].stored = false
				sx.Reach("expired")
			} else if g[ki].stored {
				sx.Reach("callback-found-refreshed-template")
			}
		}

		// after every event: the store equals the model ...
		snap := cp.VerifTemplates()
		nStored := 0
		for ki := range g {
			found := false
			for _, t := range snap {
				if t.ObsDomainID == keys[ki].dom && t.TemplateID == keys[ki].id {
					found = true
					sx.Assert(len(t.IEs) == 1+g[ki].def, "stored-definition")
					sx.Assert(t.ExpiryTime.Equal(clk.at(g[ki].t0+ttl)), "stored-expiry-time")
				}
			}
			if g[ki].stored {
				nStored++
				sx.Assert(found, "template-missing: dropped-early-or-lost")
			} else {
				sx.Assert(!found, "template-outlives-its-lifetime-or-invalidation")
			}
			// ... and the timer invariant holds
			armed, pending := 0, 0
			var target int64
			for _, t := range clk.timers {
				if t.key == ki && t.armed {
					armed++
					target = t.target
				}
			}
			for _, p := range clk.pending {
				if p.t.key == ki {
					pending++
				}
			}
			if g[ki].stored {
				sx.Assert(armed == 1 || (armed == 0 && pending >= 1), "stored-template-without-pending-expiry")
				if armed == 1 {
					sx.Assert(target == g[ki].t0+ttl, "armed-timer-targets-wrong-instant")
				}
			} else {
				sx.Assert(armed == 0, "removed-template-has-armed-timer")
			}
		}
		sx.Assert(len(snap) == nStored, "stored-template-count")
	}
	sx.Reach("done")
}

var Table = map[string]runner.Entry{
	"Check_ScheduleDTLS":          {Setup: Setup, Fn: Check_ScheduleDTLS},
	"Check_Schedule":              {Setup: Setup, Fn: Check_Schedule},
	"Check_ScheduleAfterLifetime": {Setup: Setup, Fn: Check_ScheduleAfterLifetime},
}
