package common

import "math"

func f32(b uint32) float32    { return math.Float32frombits(b) }
func f64(b uint64) float64    { return math.Float64frombits(b) }
func bits32(f float32) uint32 { return math.Float32bits(f) }
func bits64(f float64) uint64 { return math.Float64bits(f) }
