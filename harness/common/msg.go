package common

import (
	"github.com/vmware/go-ipfix/pkg/entities"

	"verifh/ref"
	"verifh/sx"
)

// VarLens are the variable-length boundary lengths of the properties.
var VarLensQuick = []int{0, 255}
var VarLensQuickString = []int{0, 2, 255}
var VarLensThorough = []int{0, 1, 2, 254, 255, 256}

// PickLen splits over the boundary lengths for a variable-length kind.
func PickLen(k Kind, tag string) int { return PickLenR(k, tag, false) }

// PickLenR: reduced keeps the quick menu even in the thorough tier (used for
// the widest template shapes).
func PickLenR(k Kind, tag string, reduced bool) int {
	if !k.IsVar() {
		return 0
	}
	ls := VarLensQuick
	if k == KString || k == KAntreaS {
		// strings also get a short non-empty length: content-dependent handling
		// (character set, padding) is decidable there, while at 255 symbolic
		// bytes it is not always
		ls = VarLensQuickString
	}
	if sx.Tier() > 0 && !reduced {
		ls = VarLensThorough
	}
	return ls[sx.Choose(tag, len(ls))]
}

// RefTemplateSet is the reference encoding of a template set body (set header
// included) for the given kinds.
func RefTemplateSet(tplID uint16, kinds []Kind) []byte {
	b := ref.U16(nil, 2)
	b = ref.U16(b, 0) // length patched below
	b = ref.U16(b, tplID)
	b = ref.U16(b, uint16(len(kinds)))
	for _, k := range kinds {
		ie := IE(k)
		b = ref.FieldSpec(b, ie.ElementId, ie.Len, ie.EnterpriseId)
	}
	b[2], b[3] = byte(len(b)>>8), byte(len(b))
	return b
}

// RefDataSet is the reference encoding of a data set (set header included).
func RefDataSet(tplID uint16, recs [][]Val) []byte {
	b := ref.U16(nil, tplID)
	b = ref.U16(b, 0)
	for _, r := range recs {
		for _, v := range r {
			b = append(b, v.Enc...)
		}
	}
	b[2], b[3] = byte(len(b)>>8), byte(len(b))
	return b
}

// RefMessage prepends the message header to a set.
func RefMessage(exportTime, seq, domain uint32, set []byte) []byte {
	b := ref.U16(nil, 10)
	b = ref.U16(b, uint16(16+len(set)))
	b = ref.U32(b, exportTime)
	b = ref.U32(b, seq)
	b = ref.U32(b, domain)
	return append(b, set...)
}

// TemplateSet builds the library's template set for the kinds.
func TemplateSet(tplID uint16, kinds []Kind) entities.Set {
	ies := make([]*entities.InfoElement, len(kinds))
	for i, k := range kinds {
		ies[i] = IE(k)
	}
	s, err := entities.MakeTemplateSet(tplID, ies)
	if err != nil {
		panic("common.TemplateSet: " + err.Error())
	}
	return s
}

// DataSet builds the library's data set with one record per value vector.
func DataSet(tplID uint16, recs [][]Val) entities.Set {
	return FillDataSet(entities.NewSet(false), tplID, recs)
}

// FillDataSet prepares s (a new set, or one the caller has reset for reuse)
// as a data set with the given records.
func FillDataSet(s entities.Set, tplID uint16, recs [][]Val) entities.Set {
	if err := s.PrepareSet(entities.Data, tplID); err != nil {
		panic("common.DataSet: " + err.Error())
	}
	for _, r := range recs {
		elems := make([]entities.InfoElementWithValue, len(r))
		for i, v := range r {
			elems[i] = Element(v)
		}
		if err := s.AddRecord(elems, tplID); err != nil {
			panic("common.DataSet: " + err.Error())
		}
	}
	return s
}

// DrawKinds splits over all templates of 1..maxFields kinds from the pool.
func DrawKinds(maxFields int) []Kind {
	n := sx.Range("nfields", 1, maxFields)
	ks := make([]Kind, n)
	for i := range ks {
		ks[i] = Kind(sx.Choose("kind", int(NumKinds)))
	}
	return ks
}

// TriPool is the reduced kind pool used for three-field templates (the full
// pool cubed is out of reach).
var TriPool = []Kind{KU8, KS32, KF64, KBool, KIPv6, KString, KOctetFix, KUserBig}

// DrawKindsTiered: all templates of 1..2 kinds from the full pool, and (when
// maxFields is 3) all triples from TriPool.
func DrawKindsTiered(maxFields int) []Kind {
	n := sx.Range("nfields", 1, maxFields)
	ks := make([]Kind, n)
	for i := range ks {
		if n >= 3 {
			ks[i] = TriPool[sx.Choose("kind", len(TriPool))]
		} else {
			ks[i] = Kind(sx.Choose("kind", int(NumKinds)))
		}
	}
	return ks
}

// DrawRecords draws nrec records of symbolic values for the kinds.
func DrawRecords(kinds []Kind, nrec int) [][]Val {
	recs := make([][]Val, nrec)
	nvar := 0
	for _, k := range kinds {
		if k.IsVar() {
			nvar++
		}
	}
	// the full menu of boundary lengths is used while at most two variable-length
	// values are drawn in all; beyond that the product of length choices explodes
	// (two string fields x three records x six lengths = 46 k shapes for one template)
	reduced := len(kinds) >= 3 || nvar*nrec > 2
	for r := range recs {
		recs[r] = make([]Val, len(kinds))
		for i, k := range kinds {
			recs[r][i] = Draw(k, "value", PickLenR(k, "len", reduced))
		}
	}
	return recs
}
