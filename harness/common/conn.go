package common

import (
	"errors"
	"io"
	"net"
	"time"

	"verifh/sx"
)

// FakeConn is an in-memory net.Conn honouring the documented contracts:
// Write delivers all bytes or errors; after Close, Write/Read error.
type FakeConn struct {
	Writes    [][]byte // one entry per Write call (copied)
	Closed    int
	FailWrite bool   // Write returns an error and writes nothing
	ShortBy   int    // the next Write accepts ShortBy fewer bytes than offered (no error), once
	PeerEOF   bool   // Read returns io.EOF (peer closed)
	ReadData  []byte // stream served by Read
	Cuts      []int  // segment boundaries for Read (absolute offsets, increasing)
	Remote    string // remote address (default 10.0.0.2:55555)
	// DeadlineTimeouts: when the code under test has set a read deadline, a Read
	// at a segment boundary may first fail with a timeout (the next segment
	// arrives late) - the environment's choice, at most once per boundary.
	DeadlineTimeouts bool
	readPos          int
	deadlineSet      bool
	timedOutAt       int
}

type timeoutError struct{}

func (timeoutError) Error() string   { return "fakeconn: i/o timeout" }
func (timeoutError) Timeout() bool   { return true }
func (timeoutError) Temporary() bool { return true }

type fakeAddr string

func (a fakeAddr) Network() string { return "tcp" }
func (a fakeAddr) String() string  { return string(a) }

var ErrClosed = errors.New("fakeconn: use of closed connection")
var ErrWrite = errors.New("fakeconn: write failed")
var ErrTimeout = errors.New("fakeconn: i/o timeout")

func (c *FakeConn) Write(b []byte) (int, error) {
	if c.Closed > 0 {
		return 0, ErrClosed
	}
	if c.FailWrite {
		return 0, ErrWrite
	}
	n := len(b)
	if c.ShortBy > 0 {
		// the connection accepts only part of this one Write (no error), as a
		// net.Conn may; the accepted bytes are what reaches the peer
		n -= c.ShortBy
		if n < 0 {
			n = 0
		}
		c.ShortBy = 0
	}
	cp := make([]byte, n)
	copy(cp, b[:n])
	c.Writes = append(c.Writes, cp)
	return n, nil
}

func (c *FakeConn) Read(b []byte) (int, error) {
	if c.Closed > 0 {
		return 0, ErrClosed
	}
	if c.readPos < len(c.ReadData) {
		if c.DeadlineTimeouts && c.deadlineSet && c.readPos > 0 && c.timedOutAt != c.readPos {
			for _, cut := range c.Cuts {
				if cut == c.readPos {
					c.timedOutAt = c.readPos
					if sx.Bool("segmentArrivesAfterTheReadDeadline") {
						return 0, timeoutError{}
					}
				}
			}
		}
		end := len(c.ReadData)
		for _, cut := range c.Cuts {
			if cut > c.readPos {
				end = cut
				break
			}
		}
		n := copy(b, c.ReadData[c.readPos:end])
		c.readPos += n
		return n, nil
	}
	if c.PeerEOF || c.ReadData != nil {
		return 0, io.EOF
	}
	return 0, ErrTimeout
}

func (c *FakeConn) Close() error {
	c.Closed++
	return nil
}

func (c *FakeConn) LocalAddr() net.Addr { return fakeAddr("10.0.0.1:4739") }
func (c *FakeConn) RemoteAddr() net.Addr {
	if c.Remote != "" {
		return fakeAddr(c.Remote)
	}
	return fakeAddr("10.0.0.2:55555")
}
func (c *FakeConn) SetDeadline(t time.Time) error {
	c.deadlineSet = !t.IsZero()
	return nil
}
func (c *FakeConn) SetReadDeadline(t time.Time) error {
	c.deadlineSet = !t.IsZero()
	return nil
}
func (c *FakeConn) SetWriteDeadline(t time.Time) error { return nil }

// TotalWritten is the number of bytes handed to Write.
func (c *FakeConn) TotalWritten() int {
	n := 0
	for _, w := range c.Writes {
		n += len(w)
	}
	return n
}
