package common

import (
	"errors"
	"io"
	"net"
	"time"
)

// FakeConn is an in-memory net.Conn honouring the documented contracts:
// Write delivers all bytes or errors; after Close, Write/Read error.
type FakeConn struct {
	Writes    [][]byte // one entry per Write call (copied)
	Closed    int
	FailWrite bool   // Write returns an error and writes nothing
	ShortBy   int    // Write reports ShortBy fewer bytes (no error)
	PeerEOF   bool   // Read returns io.EOF (peer closed)
	ReadData  []byte // stream served by Read
	Cuts      []int  // segment boundaries for Read (absolute offsets, increasing)
	Remote    string // remote address (default 10.0.0.2:55555)
	readPos   int
}

type fakeAddr string

func (a fakeAddr) Network() string { return "tcp" }
func (a fakeAddr) String() string  { return string(a) }

var ErrClosed = errors.New("fakeconn: use of closed connection")
var ErrWrite = errors.New("fakeconn: write failed")
var ErrTimeout = errors.New("fakeconn: i/o timeout")

func (c *FakeConn) Write(b []byte) (int, error) {
	if c.Closed > 0 {
		return 0, ErrClosed
	}
	if c.FailWrite {
		return 0, ErrWrite
	}
	cp := make([]byte, len(b))
	copy(cp, b)
	c.Writes = append(c.Writes, cp)
	return len(b) - c.ShortBy, nil
}

func (c *FakeConn) Read(b []byte) (int, error) {
	if c.Closed > 0 {
		return 0, ErrClosed
	}
	if c.readPos < len(c.ReadData) {
		end := len(c.ReadData)
		for _, cut := range c.Cuts {
			if cut > c.readPos {
				end = cut
				break
			}
		}
		n := copy(b, c.ReadData[c.readPos:end])
		c.readPos += n
		return n, nil
	}
	if c.PeerEOF || c.ReadData != nil {
		return 0, io.EOF
	}
	return 0, ErrTimeout
}

func (c *FakeConn) Close() error {
	c.Closed++
	return nil
}

func (c *FakeConn) LocalAddr() net.Addr { return fakeAddr("10.0.0.1:4739") }
func (c *FakeConn) RemoteAddr() net.Addr {
	if c.Remote != "" {
		return fakeAddr(c.Remote)
	}
	return fakeAddr("10.0.0.2:55555")
}
func (c *FakeConn) SetDeadline(t time.Time) error      { return nil }
func (c *FakeConn) SetReadDeadline(t time.Time) error  { return nil }
func (c *FakeConn) SetWriteDeadline(t time.Time) error { return nil }

// TotalWritten is the number of bytes handed to Write.
func (c *FakeConn) TotalWritten() int {
	n := 0
	for _, w := range c.Writes {
		n += len(w)
	}
	return n
}
