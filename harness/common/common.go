// Package common holds what the harnesses share: registry setup with a
// user-registered enterprise, and the element-kind pool of DESIGN.md appendix C.
package common

import (
	"net"

	"github.com/vmware/go-ipfix/pkg/entities"
	"github.com/vmware/go-ipfix/pkg/registry"

	"verifh/ref"
	"verifh/sx"
)

const UserEnterprise uint32 = 7

// UserEnterpriseBig is a second user-registered enterprise whose number does
// not fit 16 bits (private enterprise numbers are 32-bit).
const UserEnterpriseBig uint32 = 100000

// Setup loads the registry and registers enterprise 7 (signed, float32 and
// fixed-length octet array elements do not occur in the shipped registries).
func Setup() {
	registry.LoadRegistry()
	if err := registry.InitNewRegistry(UserEnterprise); err != nil {
		panic(err)
	}
	put := func(name string, id uint16, t entities.IEDataType, l uint16) {
		if err := registry.PutInfoElement(*entities.NewInfoElement(name, id, t, UserEnterprise, l), UserEnterprise); err != nil {
			panic(err)
		}
	}
	put("userS8", 1, entities.Signed8, 1)
	put("userS16", 2, entities.Signed16, 2)
	put("userS32", 3, entities.Signed32, 4)
	put("userF32", 4, entities.Float32, 4)
	put("userOctets5", 5, entities.OctetArray, 5)
	put("userS64", 6, entities.Signed64, 8)
	if err := registry.InitNewRegistry(UserEnterpriseBig); err != nil {
		panic(err)
	}
	if err := registry.PutInfoElement(*entities.NewInfoElement("userBigU16", 1, entities.Unsigned16, UserEnterpriseBig, 2), UserEnterpriseBig); err != nil {
		panic(err)
	}
}

// SetupFixedString additionally registers a string element DECLARED with a
// fixed length (used by C16 only; see KUserFixedStr).
func SetupFixedString() {
	if err := registry.PutInfoElement(*entities.NewInfoElement("userFixedStr8", 7, entities.String, UserEnterprise, 8), UserEnterprise); err != nil {
		panic(err)
	}
}

// Kind identifies one supported (data type, form) combination.
type Kind int

const (
	KU8 Kind = iota
	KU16
	KU32
	KU64
	KS8
	KS16
	KS32
	KS64
	KF32
	KF64
	KBool
	KMac
	KDTS
	KDTMS
	KIPv4
	KIPv4in16 // IPv4 element given a 16-byte v4-in-v6 net.IP
	KIPv6
	KString
	KOctetVar
	KOctetFix
	KRevU64  // reverse (29305) element
	KAntreaS // Antrea (56506) string
	KUserBig // unsigned16 of a user enterprise above 65535
	NumKinds
	// KUserFixedStr is a user-registered string element DECLARED with a fixed
	// length (8).  The library always length-prefixes strings whatever the
	// declared length, so the kind is kept out of the pools that compare with
	// the reference encoding; C16 uses it for the builders' bookkeeping only.
	KUserFixedStr
)

type elemDef struct {
	name string
	ent  uint32
}

var defs = [NumKinds + 2]elemDef{
	KUserFixedStr: {"userFixedStr8", UserEnterprise},
	KU8:           {"protocolIdentifier", 0},
	KU16:          {"sourceTransportPort", 0},
	KU32:          {"ingressInterface", 0},
	KU64:          {"octetDeltaCount", 0},
	KS8:           {"userS8", UserEnterprise},
	KS16:          {"userS16", UserEnterprise},
	KS32:          {"ingressNetworkPolicyRulePriority", registry.AntreaEnterpriseID},
	KS64:          {"userS64", UserEnterprise},
	KF32:          {"userF32", UserEnterprise},
	KF64:          {"samplingProbability", 0},
	KBool:         {"dataRecordsReliability", 0},
	KMac:          {"sourceMacAddress", 0},
	KDTS:          {"flowEndSeconds", 0},
	KDTMS:         {"flowStartMilliseconds", 0},
	KIPv4:         {"sourceIPv4Address", 0},
	KIPv4in16:     {"destinationIPv4Address", 0},
	KIPv6:         {"sourceIPv6Address", 0},
	KString:       {"interfaceName", 0},
	KOctetVar:     {"applicationId", 0},
	KOctetFix:     {"userOctets5", UserEnterprise},
	KRevU64:       {"reverseOctetDeltaCount", registry.IANAReversedEnterpriseID},
	KAntreaS:      {"sourcePodName", registry.AntreaEnterpriseID},
	KUserBig:      {"userBigU16", UserEnterpriseBig},
}

func (k Kind) String() string { return defs[k].name }

// IsVar reports whether the kind is variable-length on the wire.
func (k Kind) IsVar() bool {
	return k == KString || k == KOctetVar || k == KAntreaS || k == KUserFixedStr
}

// Width is the fixed wire width (0 for variable-length kinds).
func (k Kind) Width() int {
	switch k {
	case KU8, KS8, KBool:
		return 1
	case KU16, KS16, KUserBig:
		return 2
	case KU32, KS32, KF32, KDTS, KIPv4, KIPv4in16:
		return 4
	case KU64, KS64, KF64, KDTMS, KRevU64:
		return 8
	case KMac:
		return 6
	case KIPv6:
		return 16
	case KOctetFix:
		return 5
	}
	return 0
}

// IE returns the registry element of a kind.
func IE(k Kind) *entities.InfoElement {
	ie, err := registry.GetInfoElement(defs[k].name, defs[k].ent)
	if err != nil {
		panic("common.IE: " + defs[k].name)
	}
	return ie
}

// Val is a drawn value of some kind together with its reference encoding.
type Val struct {
	K   Kind
	U   uint64 // integers, floats (bit pattern), date-times
	B   bool
	Raw []byte // addresses, octet arrays, string bytes
	Enc []byte // reference encoding (RFC 7011), independent of the library
}

// Draw makes a fully symbolic value of kind k; n is the payload length for
// variable-length kinds.
func Draw(k Kind, tag string, n int) Val {
	v := Val{K: k}
	switch k {
	case KU8:
		v.U = uint64(sx.U8(tag))
		v.Enc = ref.U8(nil, uint8(v.U))
	case KS8:
		v.U = uint64(sx.U8(tag))
		v.Enc = ref.U8(nil, uint8(v.U))
	case KU16, KS16, KUserBig:
		v.U = uint64(sx.U16(tag))
		v.Enc = ref.U16(nil, uint16(v.U))
	case KU32, KS32, KF32, KDTS:
		v.U = uint64(sx.U32(tag))
		v.Enc = ref.U32(nil, uint32(v.U))
	case KU64, KS64, KF64, KDTMS, KRevU64:
		v.U = sx.U64(tag)
		v.Enc = ref.U64(nil, v.U)
	case KBool:
		v.B = sx.Bool(tag)
		v.Enc = ref.Bool(nil, v.B)
	case KMac:
		v.Raw = sx.Bytes(tag, 6)
		v.Enc = v.Raw
	case KIPv4:
		v.Raw = sx.Bytes(tag, 4)
		v.Enc = v.Raw
	case KIPv4in16:
		v.Raw = sx.Bytes(tag, 4)
		v.Enc = v.Raw
	case KIPv6:
		v.Raw = sx.Bytes(tag, 16)
		v.Enc = v.Raw
	case KOctetFix:
		v.Raw = sx.Bytes(tag, 5)
		v.Enc = v.Raw
	case KString, KOctetVar, KAntreaS, KUserFixedStr:
		v.Raw = sx.Bytes(tag, n)
		v.Enc = ref.Var(nil, v.Raw)
	}
	return v
}

// Element builds the library's element-with-value for a drawn value, through
// the typed constructors an application uses.
func Element(v Val) entities.InfoElementWithValue {
	ie := IE(v.K)
	switch v.K {
	case KU8:
		return entities.NewUnsigned8InfoElement(ie, uint8(v.U))
	case KU16, KUserBig:
		return entities.NewUnsigned16InfoElement(ie, uint16(v.U))
	case KU32:
		return entities.NewUnsigned32InfoElement(ie, uint32(v.U))
	case KU64, KRevU64:
		return entities.NewUnsigned64InfoElement(ie, v.U)
	case KS8:
		return entities.NewSigned8InfoElement(ie, int8(v.U))
	case KS16:
		return entities.NewSigned16InfoElement(ie, int16(v.U))
	case KS32:
		return entities.NewSigned32InfoElement(ie, int32(v.U))
	case KS64:
		return entities.NewSigned64InfoElement(ie, int64(v.U))
	case KF32:
		return entities.NewFloat32InfoElement(ie, f32(uint32(v.U)))
	case KF64:
		return entities.NewFloat64InfoElement(ie, f64(v.U))
	case KBool:
		return entities.NewBoolInfoElement(ie, v.B)
	case KMac:
		return entities.NewMacAddressInfoElement(ie, net.HardwareAddr(v.Raw))
	case KDTS:
		return entities.NewDateTimeSecondsInfoElement(ie, uint32(v.U))
	case KDTMS:
		return entities.NewDateTimeMillisecondsInfoElement(ie, v.U)
	case KIPv4, KIPv6:
		return entities.NewIPAddressInfoElement(ie, net.IP(v.Raw))
	case KIPv4in16:
		return entities.NewIPAddressInfoElement(ie, net.IPv4(v.Raw[0], v.Raw[1], v.Raw[2], v.Raw[3]))
	case KString, KAntreaS, KUserFixedStr:
		return entities.NewStringInfoElement(ie, string(v.Raw))
	case KOctetVar, KOctetFix:
		return entities.NewOctetArrayInfoElement(ie, v.Raw)
	}
	panic("common.Element: bad kind")
}

// Same reports (as one solver term, no branches on values) whether a decoded
// element carries exactly the drawn value.
func Same(v Val, e entities.InfoElementWithValue) bool {
	switch v.K {
	case KU8:
		return e.GetUnsigned8Value() == uint8(v.U)
	case KU16, KUserBig:
		return e.GetUnsigned16Value() == uint16(v.U)
	case KU32, KDTS:
		return e.GetUnsigned32Value() == uint32(v.U)
	case KU64, KDTMS, KRevU64:
		return e.GetUnsigned64Value() == v.U
	case KS8:
		return e.GetSigned8Value() == int8(v.U)
	case KS16:
		return e.GetSigned16Value() == int16(v.U)
	case KS32:
		return e.GetSigned32Value() == int32(v.U)
	case KS64:
		return e.GetSigned64Value() == int64(v.U)
	case KF32:
		return bits32(e.GetFloat32Value()) == uint32(v.U)
	case KF64:
		return bits64(e.GetFloat64Value()) == v.U
	case KBool:
		return e.GetBooleanValue() == v.B
	case KMac:
		return sx.EqBytes(e.GetMacAddressValue(), v.Raw)
	case KIPv4, KIPv6, KIPv4in16:
		return sx.EqBytes(e.GetIPAddressValue(), v.Raw)
	case KString, KAntreaS, KUserFixedStr:
		return e.GetStringValue() == string(v.Raw)
	case KOctetVar, KOctetFix:
		return sx.EqBytes(e.GetOctetArrayValue(), v.Raw)
	}
	return false
}

// kindForType maps a data type to a representative kind (value shape).
func kindForType(t entities.IEDataType, l uint16) (Kind, bool) {
	switch t {
	case entities.Unsigned8:
		return KU8, true
	case entities.Unsigned16:
		return KU16, true
	case entities.Unsigned32:
		return KU32, true
	case entities.Unsigned64:
		return KU64, true
	case entities.Signed8:
		return KS8, true
	case entities.Signed16:
		return KS16, true
	case entities.Signed32:
		return KS32, true
	case entities.Signed64:
		return KS64, true
	case entities.Float32:
		return KF32, true
	case entities.Float64:
		return KF64, true
	case entities.Boolean:
		return KBool, true
	case entities.MacAddress:
		return KMac, true
	case entities.DateTimeSeconds:
		return KDTS, true
	case entities.DateTimeMilliseconds:
		return KDTMS, true
	case entities.Ipv4Address:
		return KIPv4, true
	case entities.Ipv6Address:
		return KIPv6, true
	case entities.String:
		return KString, true
	case entities.OctetArray:
		if l == entities.VariableLength {
			return KOctetVar, true
		}
		return KOctetFix, true
	}
	return 0, false
}

// DrawForIE draws a symbolic value shaped for an arbitrary registry element.
func DrawForIE(ie *entities.InfoElement, tag string) (Val, bool) {
	k, ok := kindForType(ie.DataType, ie.Len)
	if !ok {
		return Val{}, false
	}
	if k == KOctetFix {
		v := Val{K: k}
		v.Raw = sx.Bytes(tag, int(ie.Len))
		v.Enc = v.Raw
		return v, true
	}
	n := 0
	if k.IsVar() {
		n = []int{0, 3, 255}[sx.Choose("len", 3)]
	}
	return Draw(k, tag, n), true
}

// ElementForIE builds the element-with-value for ie from a value drawn by DrawForIE.
func ElementForIE(ie *entities.InfoElement, v Val) entities.InfoElementWithValue {
	e := Element(v)
	e.AddInfoElement(ie)
	return e
}
