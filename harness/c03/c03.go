// Package c03: collector decoding is total and exact on arbitrary bytes
// (property C03).
package c03

import (
	"github.com/vmware/go-ipfix/pkg/collector"
	"github.com/vmware/go-ipfix/pkg/entities"

	"verifh/common"
	"verifh/ref"
	"verifh/runner"
	"verifh/sx"
)

func Setup() { common.Setup() }

var modes = []collector.DecodingMode{collector.DecodingModeStrict, collector.DecodingModeLenientKeepUnknown, collector.DecodingModeLenientDropUnknown}

// field shapes a template position can take
type shape struct {
	name    string
	kind    common.Kind // for known elements
	unknown bool
	id      uint16
	ent     uint32
	length  uint16 // wire length for unknown elements (65535 = variable)
}

var shapes = []shape{
	{name: "u8", kind: common.KU8},
	{name: "u16", kind: common.KU16},
	{name: "u32", kind: common.KU32},
	{name: "u64", kind: common.KU64},
	{name: "bool", kind: common.KBool},
	{name: "mac", kind: common.KMac},
	{name: "ipv4", kind: common.KIPv4},
	{name: "ipv6", kind: common.KIPv6},
	{name: "string", kind: common.KString},
	{name: "octets", kind: common.KOctetVar},
	{name: "s64user", kind: common.KS64},
	{name: "unknown-len0", unknown: true, id: 999, ent: 0, length: 0},
	{name: "unknown-len3", unknown: true, id: 5, ent: 9999, length: 3},
	{name: "unknown-var", unknown: true, id: 9999, ent: 56506, length: 65535},
}

const (
	shU8 = iota
	shU16
	shU32
	shU64
	shBool
	shMac
	shIPv4
	shIPv6
	shString
	shOctets
	shS64
	shUnk0
	shUnk3
	shUnkVar
)

// template layouts explored (indices into shapes)
func layouts() [][]int {
	var out [][]int
	out = append(out, []int{}) // zero fields (degenerate)
	for i := range shapes {
		out = append(out, []int{i})
	}
	if sx.Tier() == 0 {
		out = append(out, [][]int{
			{shU16, shString}, {shString, shU16}, {shString, shString}, {shUnkVar, shU16}, {shU16, shUnkVar},
			{shUnk0, shUnk0}, {shUnk0, shU16}, {shMac, shOctets}, {shU16, shMac}, {shUnk3, shU8}, {shOctets, shUnkVar},
		}...)
		return out
	}
	pairPool := []int{shU16, shMac, shString, shOctets, shUnk0, shUnkVar}
	for _, a := range pairPool {
		for _, b := range pairPool {
			out = append(out, []int{a, b})
		}
	}
	triPool := []int{shU8, shString, shUnkVar}
	for _, a := range triPool {
		for _, b := range triPool {
			for _, c := range triPool {
				out = append(out, []int{a, b, c})
			}
		}
	}
	return out
}

// bodyBound: the number of ways a body splits into variable-length records is
// exponential in its length (one path per composition), so layouts with a
// variable-length field get a shorter body bound than fixed layouts.
func bodyBound(layout []int) int {
	nvar := 0
	for _, si := range layout {
		if wireLen(shapes[si]) == 65535 {
			nvar++
		}
	}
	if sx.Tier() == 0 {
		if nvar > 0 {
			return sx.Param("maxBodyVar", 6)
		}
		return sx.Param("maxBody", 12)
	}
	if nvar > 0 {
		return sx.Param("maxBodyVar", 7)
	}
	if len(layout) >= 2 {
		// thorough widens the set of multi-field layouts (36 pairs + 27 triples
		// instead of 11 pairs); the longer bodies go to the single-field layouts
		return sx.Param("maxBodyMulti", 12)
	}
	return sx.Param("maxBody", 14)
}

const tplID = 300
const domain = 7

func wireLen(s shape) uint16 {
	if s.unknown {
		return s.length
	}
	return common.IE(s.kind).Len
}

// installTemplate sends the template through the collector's own entry point.
func installTemplate(cp *collector.CollectingProcess, layout []int) bool {
	pkt := ref.Header(0, 0, 0, domain, 2, 0)
	pkt = ref.U16(pkt, tplID)
	pkt = ref.U16(pkt, uint16(len(layout)))
	for _, si := range layout {
		s := shapes[si]
		if s.unknown {
			pkt = ref.FieldSpec(pkt, s.id, s.length, s.ent)
		} else {
			ie := common.IE(s.kind)
			pkt = ref.FieldSpec(pkt, ie.ElementId, ie.Len, ie.EnterpriseId)
		}
	}
	_, err := cp.VerifDecodePacket(pkt, "1.2.3.4:5")
	drain(cp)
	return err == nil
}

func drain(cp *collector.CollectingProcess) {
	for {
		select {
		case <-cp.GetMsgChan():
		default:
			return
		}
	}
}

// field is one field of the reference parse: payload bytes B[off:off+n].
type field struct{ off, n int }

const (
	stRecords = iota
	stTruncated
	stDegenerate
)

// refParse is the reference data-set parser of DESIGN.md appendix C.
func refParse(widths []int, B []byte) (recs [][]field, status int) {
	min := 0
	for _, w := range widths {
		if w < 0 {
			min++
		} else {
			min += w
		}
	}
	if min == 0 {
		return nil, stDegenerate
	}
	pos := 0
	for len(B)-pos >= min {
		var rec []field
		for _, w := range widths {
			l := w
			if w < 0 {
				if len(B)-pos < 1 {
					return nil, stTruncated
				}
				l = int(B[pos])
				pos++
				if l == 255 {
					if len(B)-pos < 2 {
						return nil, stTruncated
					}
					l = int(B[pos])<<8 | int(B[pos+1])
					pos += 2
				}
			}
			if len(B)-pos < l {
				return nil, stTruncated
			}
			rec = append(rec, field{pos, l})
			pos += l
		}
		recs = append(recs, rec)
	}
	return recs, stRecords
}

// sameField: the delivered element carries exactly the bytes B[f.off:f.off+f.n]
// interpreted per its type.
func sameField(s shape, e entities.InfoElementWithValue, B []byte, f field) bool {
	raw := B[f.off : f.off+f.n]
	if s.unknown {
		return sx.EqBytes(e.GetOctetArrayValue(), raw)
	}
	switch s.kind {
	case common.KU8:
		return e.GetUnsigned8Value() == raw[0]
	case common.KU16:
		return e.GetUnsigned16Value() == ref.GetU16(raw, 0)
	case common.KU32:
		return e.GetUnsigned32Value() == ref.GetU32(raw, 0)
	case common.KU64:
		return e.GetUnsigned64Value() == ref.GetU64(raw, 0)
	case common.KS64:
		return uint64(e.GetSigned64Value()) == ref.GetU64(raw, 0)
	case common.KBool:
		return e.GetBooleanValue() == (raw[0] == 1)
	case common.KMac:
		return sx.EqBytes(e.GetMacAddressValue(), raw)
	case common.KIPv4, common.KIPv6:
		return sx.EqBytes(e.GetIPAddressValue(), raw)
	case common.KString:
		return e.GetStringValue() == string(raw)
	case common.KOctetVar:
		return sx.EqBytes(e.GetOctetArrayValue(), raw)
	}
	return false
}

// Check_DataPacket: a template of every explored layout is installed through
// the collector's own entry point, then a packet whose EVERY byte (header, set
// header, body) is symbolic is presented, under each decoding mode.
// Totality: no panic, no hang, bounded allocation (engine outcomes).
// Exactness: a delivered data message carries exactly the records the
// reference parser extracts from the body with the installed template.
func Check_DataPacket() {
	mode := sx.Choose("mode", 3)
	ls := layouts()
	layout := ls[sx.Choose("layout", len(ls))]
	maxBody := bodyBound(layout)
	cp, err := collector.VerifNewCollectingProcess(collector.CollectorInput{Protocol: "tcp", Address: "x", DecodingMode: modes[mode]}, nil, 8)
	sx.Assert(err == nil, "init")
	installed := installTemplate(cp, layout)
	hasUnknown := false
	for _, si := range layout {
		if shapes[si].unknown {
			hasUnknown = true
		}
	}
	if mode == 0 && hasUnknown {
		sx.Assert(!installed, "strict-mode-accepts-unknown-element")
	} else {
		sx.Assert(installed, "template-not-installed")
	}

	// packet: total length split 0..20+maxBody, all bytes symbolic
	n := sx.Range("packetLen", 0, 20+maxBody)
	pkt := sx.Bytes("packet", n)
	if n >= 20 {
		// the data-set entry point: template sets are explored by Check_TemplatePacket
		sx.Assume(ref.GetU16(pkt, 16) != 2)
	}
	msg, err := cp.VerifDecodePacket(pkt, "1.2.3.4:5")
	// totality: we got here (no panic / hang: engine outcomes), error xor message
	sx.Assert((err == nil) != (msg == nil), "error-xor-message")
	if err != nil {
		sx.Reach("error")
		// a body the reference parser accepts for the template in force must not
		// be refused (when the packet addresses that template and is a v10 message)
		if n >= 20 && installed {
			match := sx.And(ref.GetU16(pkt, 0) == 10, ref.GetU32(pkt, 12) == domain, ref.GetU16(pkt, 16) == tplID)
			if match {
				_, st := refParse(refWidths(layout), pkt[20:])
				sx.Assert(st != stRecords, "well-formed-body-refused")
				sx.Reach("refused-for-cause")
			}
		}
		return
	}
	sx.Reach("message")
	sx.Assert(n >= 20, "message-from-short-packet")
	sx.Assert(ref.GetU16(pkt, 0) == 10, "message-from-non-v10")
	sx.Assert(sx.And(msg.GetObsDomainID() == ref.GetU32(pkt, 12), msg.GetSequenceNum() == ref.GetU32(pkt, 8), msg.GetExportTime() == ref.GetU32(pkt, 4)), "header-fields-delivered")
	// a data message can only have been decoded with the installed template
	sx.Assert(installed, "data-decoded-without-template")
	sx.Assert(sx.And(ref.GetU32(pkt, 12) == domain, ref.GetU16(pkt, 16) == tplID), "data-decoded-with-another-keys-template")
	set := msg.GetSet()
	sx.Assert(set.GetSetType() == entities.Data, "set-type")
	B := pkt[20:]
	want, st := refParse(refWidths(layout), B)
	if st == stDegenerate {
		// the template defines empty records: the only acceptable message has none
		sx.Assert(len(set.GetRecords()) == 0, "records-conjured-from-empty-template")
		sx.Reach("degenerate")
		return
	}
	sx.Assert(st == stRecords, "truncated-body-delivered")
	got := set.GetRecords()
	sx.Assert(len(got) == len(want), "record-count")
	allSame := true
	for r := range want {
		elems := got[r].GetOrderedElementList()
		j := 0
		for i, si := range layout {
			s := shapes[si]
			if s.unknown && mode == 2 {
				continue // dropped
			}
			sx.Assert(j < len(elems), "field-missing")
			allSame = sx.And(allSame, sameField(s, elems[j], B, want[r][i]))
			j++
		}
		sx.Assert(j == len(elems), "extra-fields")
	}
	sx.Assert(allSame, "field-value")
	if len(want) > 0 {
		sx.Reach("records")
	}
	if len(want) > 1 {
		sx.Reach("two-records")
	}
}

func refWidths(layout []int) []int {
	ws := make([]int, len(layout))
	for i, si := range layout {
		l := wireLen(shapes[si])
		if l == 65535 {
			ws[i] = -1
		} else {
			ws[i] = int(l)
		}
	}
	return ws
}

// ---------------------------------------------------------------------------
// template-set packets

type poolEntry struct {
	id          uint16
	ent         uint32
	known       bool
	unsupported bool // known to the registry but of a type the library cannot represent
	name        string
	length      uint16
}

// the (element id, enterprise) pool a field specifier is assumed to come from
var pool = []poolEntry{
	{id: 4, ent: 0, known: true, name: "protocolIdentifier", length: 1},
	{id: 7, ent: 0, known: true, name: "sourceTransportPort", length: 2},
	{id: 56, ent: 0, known: true, name: "sourceMacAddress", length: 6},
	{id: 82, ent: 0, known: true, name: "interfaceName", length: 65535},
	{id: 291, ent: 0, known: true, unsupported: true, name: "basicList", length: 65535},
	{id: 999, ent: 0},
	{id: 101, ent: 56506, known: true, name: "sourcePodName", length: 65535},
	{id: 9999, ent: 56506},
	{id: 5, ent: 9999},
	{id: 1, ent: 29305, known: true, name: "reverseOctetDeltaCount", length: 8},
	{id: 6, ent: 7, known: true, name: "userS64", length: 8},
}

type spec struct {
	id     uint16
	ent    uint32
	length uint16
	pool   int
}

// Check_TemplatePacket: a packet with set id 2 whose every other byte is
// symbolic (header, template id, field count, specifiers, truncation point),
// under each decoding mode, with or without an older template for the key.
// One restriction: each specifier's (element id, enterprise) pair lies in a pool
// of 11 pairs; lengths, count and the enterprise bit are unconstrained.
func Check_TemplatePacket() {
	mode := sx.Choose("mode", 3)
	maxBody := 12
	if sx.Tier() > 0 {
		maxBody = 20
	}
	maxBody = sx.Param("maxBody", maxBody)
	cp, err := collector.VerifNewCollectingProcess(collector.CollectorInput{Protocol: "tcp", Address: "x", DecodingMode: modes[mode]}, nil, 8)
	sx.Assert(err == nil, "init")
	older := sx.Choose("olderTemplate", 2) == 1
	if older {
		sx.Assert(installTemplate(cp, []int{shU16}), "older-template-installed")
	}
	n := sx.Range("packetLen", 16, 20+maxBody)
	pkt := sx.Bytes("packet", n)
	if n >= 18 {
		sx.Assume(ref.GetU16(pkt, 16) == 2)
	}
	sx.Assume(ref.GetU16(pkt, 0) == 10)
	// reference walk over the specifiers (RFC 7011 section 3.4.1), placing the pool assumption
	var specs []spec
	truncated := false
	var tid, count uint16
	if n < 24 {
		truncated = true
	} else {
		tid = ref.GetU16(pkt, 20)
		count = ref.GetU16(pkt, 22)
		pos := 24
		for i := 0; i < int(count); i++ {
			if n-pos < 4 {
				truncated = true
				break
			}
			idf := ref.GetU16(pkt, pos)
			ln := ref.GetU16(pkt, pos+2)
			if idf&0x8000 == 0 {
				k := sx.Choose("poolEntry", len(pool))
				sx.Assume(pool[k].ent == 0)
				sx.Assume(idf == pool[k].id)
				specs = append(specs, spec{pool[k].id, 0, ln, k})
				pos += 4
				continue
			}
			if n-pos < 8 {
				truncated = true
				break
			}
			pen := ref.GetU32(pkt, pos+4)
			k := sx.Choose("poolEntry", len(pool))
			sx.Assume(pool[k].ent != 0)
			sx.Assume(sx.And(idf&0x7fff == pool[k].id, pen == pool[k].ent))
			specs = append(specs, spec{pool[k].id, pool[k].ent, ln, k})
			pos += 8
		}
	}
	// what the statement requires
	mustFail := truncated
	for _, s := range specs {
		p := pool[s.pool]
		if p.unsupported {
			mustFail = true
		}
		if !p.known && mode == 0 {
			mustFail = true
		}
	}

	msg, err := cp.VerifDecodePacket(pkt, "[::1]:5")
	sx.Assert((err == nil) != (msg == nil), "error-xor-message")
	stored := false
	var storedIEs []*entities.InfoElement
	if n >= 22 {
		for _, t := range cp.VerifTemplates() {
			if t.ObsDomainID == ref.GetU32(pkt, 12) && t.TemplateID == tid {
				stored = true
				storedIEs = t.IEs
			}
		}
	}
	if err != nil {
		sx.Reach("error")
		sx.Assert(mustFail, "well-formed-template-refused")
		if n >= 24 {
			sx.Assert(!stored, "stale-template-kept-after-bad-template")
		}
		if older && n >= 24 {
			sx.Reach("invalidated-or-other-key")
		}
		return
	}
	sx.Reach("message")
	sx.Assert(!mustFail, "bad-template-accepted")
	sx.Assert(msg.GetExportAddress() == "::1", "export-address")
	set := msg.GetSet()
	sx.Assert(set.GetSetType() == entities.Template, "set-type")
	recs := set.GetRecords()
	sx.Assert(len(recs) == 1, "one-template-record")
	sx.Assert(recs[0].GetTemplateID() == tid, "template-id")
	elems := recs[0].GetOrderedElementList()
	sx.Assert(len(elems) == len(specs), "field-count")
	sx.Assert(int(count) == len(specs), "field-count-is-wire-count")
	sx.Assert(stored, "accepted-template-not-stored")
	sx.Assert(len(storedIEs) == len(specs), "stored-field-count")
	for i, s := range specs {
		p := pool[s.pool]
		ie := elems[i].GetInfoElement()
		sx.Assert(sx.And(ie.ElementId == s.id, ie.EnterpriseId == s.ent), "field-id-matches-wire")
		sx.Assert(storedIEs[i] == ie, "stored-field-is-delivered-field")
		if p.known {
			sx.Assert(ie.Name == p.name, "known-element-name")
			sx.Assert(ie.Len == p.length, "known-element-registry-length")
		} else {
			sx.Assert(ie.Name == "", "unknown-element-unnamed")
			sx.Assert(ie.DataType == entities.OctetArray, "unknown-element-octetarray")
			sx.Assert(ie.Len == s.length, "unknown-element-wire-length")
		}
	}
	switch len(specs) {
	case 0:
		sx.Reach("zero-fields")
	case 1:
		sx.Reach("one-field")
	default:
		sx.Reach("several-fields")
	}
}

var Table = map[string]runner.Entry{
	"Check_DataPacket":     {Setup: Setup, Fn: Check_DataPacket},
	"Check_TemplatePacket": {Setup: Setup, Fn: Check_TemplatePacket},
}
