// Package c12: collector under several clients (property C12) - a PARTIAL,
// bounded rendering: two TCP connections handled concurrently by the real
// handleTCPClient (each with its reader goroutine), a draining consumer and a
// Stop() issued from a third goroutine, on in-memory connections, under every
// interleaving of their synchronisation points within a preemption bound.
// Kernel sockets, the accept loop, UDP/TLS and the race detector are not
// covered.
package c12

import (
	"errors"
	"net"
	"runtime"
	"sync"
	"time"

	"github.com/vmware/go-ipfix/pkg/collector"
	"github.com/vmware/go-ipfix/pkg/entities"

	"verifh/common"
	"verifh/ref"
	"verifh/sx"
)

func Setup() { common.Setup() }

const tplID = 400

func templateMsg(domain uint32) []byte {
	set := ref.U16(nil, 2)
	set = ref.U16(set, 0)
	set = ref.U16(set, tplID)
	set = ref.U16(set, 1)
	ie := common.IE(common.KU32)
	set = ref.FieldSpec(set, ie.ElementId, ie.Len, 0)
	set[3] = byte(len(set))
	return common.RefMessage(0, 0, domain, set)
}

func dataMsg(domain, seq, v uint32) []byte {
	set := ref.U16(nil, tplID)
	set = ref.U16(set, 8)
	set = ref.U32(set, v)
	return common.RefMessage(0, seq, domain, set)
}

// Check_TwoClients: exactly-once, in per-connection order, connection count
// back to zero, Stop returns, no goroutine of the process remains.
func Check_TwoClients() {
	cp, err := collector.VerifNewCollectingProcess(collector.CollectorInput{Protocol: "tcp", Address: "x"}, nil, 0)
	sx.Assert(err == nil, "init")
	withStop := sx.Choose("stopDuringTraffic", 2) == 1
	v := [2][2]uint32{{sx.U32("a1"), sx.U32("a2")}, {sx.U32("b1"), sx.U32("b2")}}
	// one client may disconnect abruptly in the middle of its last message
	truncate := sx.Choose("client0ClosesMidMessage", 3) // 0: no; 1: inside the header; 2: inside the body
	var conns [2]*common.FakeConn
	for c := 0; c < 2; c++ {
		dom := uint32(10 + c)
		stream := append(templateMsg(dom), dataMsg(dom, 1, v[c][0])...)
		stream = append(stream, dataMsg(dom, 2, v[c][1])...)
		if c == 0 && truncate == 1 {
			stream = stream[:len(stream)-24+2]
		}
		if c == 0 && truncate == 2 {
			stream = stream[:len(stream)-5]
		}
		conns[c] = &common.FakeConn{ReadData: stream, Remote: []string{"10.0.0.1:1000", "10.0.0.2:2000"}[c]}
	}
	var got []*entities.Message
	var consumer sync.WaitGroup
	consumer.Add(1)
	go func() {
		defer consumer.Done()
		for m := range cp.GetMsgChan() {
			got = append(got, m)
		}
	}()
	// connections are accepted as the accept loop does it (wait-group accounting
	// before the handler goroutine starts)
	cp.VerifServeConn(conns[0])
	cp.VerifServeConn(conns[1])
	if !withStop {
		// let both streams be consumed to their end first
		for conns[0].Closed == 0 || conns[1].Closed == 0 {
			runtime.Gosched()
		}
	}
	// Stop returns (a hang is reported by the engine as a deadlock), with clients
	// connected or mid-message when withStop
	cp.Stop()
	cp.CloseMsgChan()
	consumer.Wait()

	sx.Assert(cp.GetNumConnToCollector() == 0, "connection-count-not-back-to-zero")
	sx.Assert(conns[0].Closed >= 1 && conns[1].Closed >= 1, "connection-not-closed")
	// per connection: a prefix (all of them without an early Stop) of its messages, exactly once, in order
	for c := 0; c < 2; c++ {
		dom := uint32(10 + c)
		n := 0
		for _, m := range got {
			if m.GetObsDomainID() != dom {
				continue
			}
			switch n {
			case 0:
				sx.Assert(m.GetSet().GetSetType() == entities.Template, "order-within-connection")
			default:
				sx.Assert(m.GetSet().GetSetType() == entities.Data, "order-within-connection")
				el := m.GetSet().GetRecords()[0].GetOrderedElementList()
				sx.Assert(sx.And(m.GetSequenceNum() == uint32(n), el[0].GetUnsigned32Value() == v[c][n-1]), "message-duplicated-reordered-or-mixed-between-connections")
			}
			n++
		}
		sx.Assert(n <= 3, "message-delivered-more-than-once")
		if !withStop {
			want := 3
			if c == 0 && truncate != 0 {
				want = 2 // the cut message is not delivered
			}
			sx.Assert(n == want, "accepted-message-not-delivered")
		}
	}
	sx.Assert(sx.LiveGoroutines() == 0, "goroutine-of-the-process-remains-after-stop")
	if withStop {
		sx.Reach("stopped-during-traffic")
	} else {
		sx.Reach("all-delivered")
	}
}

type udpAddr string

func (a udpAddr) Network() string { return "udp" }
func (a udpAddr) String() string  { return string(a) }

// Check_TwoUDPClients: datagrams of two UDP clients dispatched as the read
// loop does, a draining consumer, then Stop: every accepted datagram is
// delivered at most once (here: exactly once, nothing is lost in memory), in
// per-client order; the client table is empty and no goroutine of the process
// remains after Stop.
func Check_TwoUDPClients() {
	cp, err := collector.VerifNewCollectingProcess(collector.CollectorInput{Protocol: "udp", Address: "x", TemplateTTL: 100}, &noClock{}, 0)
	sx.Assert(err == nil, "init")
	v := [2][2]uint32{{sx.U32("a1"), sx.U32("a2")}, {sx.U32("b1"), sx.U32("b2")}}
	var got []*entities.Message
	var consumer sync.WaitGroup
	consumer.Add(1)
	go func() {
		defer consumer.Done()
		for m := range cp.GetMsgChan() {
			got = append(got, m)
		}
	}()
	addrs := []udpAddr{"10.0.0.1:1000", "10.0.0.2:2000"}
	// the read loop is one goroutine: datagrams are dispatched one after the other, interleaved between clients
	order := sx.Choose("arrivalOrder", 3)
	seq := [][2]int{{0, 0}, {1, 0}, {0, 1}, {1, 1}, {0, 2}, {1, 2}}
	if order == 1 {
		seq = [][2]int{{0, 0}, {0, 1}, {0, 2}, {1, 0}, {1, 1}, {1, 2}}
	} else if order == 2 {
		seq = [][2]int{{1, 0}, {0, 0}, {1, 1}, {1, 2}, {0, 1}, {0, 2}}
	}
	withStop := sx.Choose("stopDuringTraffic", 2) == 1
	if withStop {
		// fewer datagrams, so that two preemptions stay affordable in the quick tier
		seq = [][2]int{{0, 0}, {0, 1}, {1, 0}, {0, 2}}
	}
	stopping := false
	var readLoop sync.WaitGroup
	readLoop.Add(1)
	go func() {
		// the read loop: one goroutine dispatching datagram after datagram; once the
		// socket is closed by Stop it ends (at most the datagram in flight is dispatched)
		defer readLoop.Done()
		for _, s := range seq {
			if stopping {
				return
			}
			c, i := s[0], s[1]
			dom := uint32(10 + c)
			var pkt []byte
			if i == 0 {
				pkt = templateMsg(dom)
			} else {
				pkt = dataMsg(dom, uint32(i), v[c][i-1])
			}
			cp.VerifHandleUDPMessage(addrs[c], pkt)
		}
	}()
	if !withStop {
		readLoop.Wait()
		for len(got) < 6 {
			runtime.Gosched()
		}
	}
	stopping = true
	cp.Stop()
	readLoop.Wait()
	cp.CloseMsgChan()
	consumer.Wait()
	sx.Assert(cp.GetNumConnToCollector() == 0, "client-table-not-empty-after-stop")
	for c := 0; c < 2; c++ {
		dom := uint32(10 + c)
		n := 0
		for _, m := range got {
			if m.GetObsDomainID() != dom {
				continue
			}
			if n == 0 {
				sx.Assert(m.GetSet().GetSetType() == entities.Template, "order-within-client")
			} else {
				el := m.GetSet().GetRecords()[0].GetOrderedElementList()
				sx.Assert(sx.And(m.GetSequenceNum() == uint32(n), el[0].GetUnsigned32Value() == v[c][n-1]), "datagram-duplicated-reordered-or-mixed-between-clients")
			}
			n++
		}
		sx.Assert(n <= 3, "datagram-delivered-more-than-once")
		if !withStop {
			sx.Assert(n == 3, "datagram-lost-or-duplicated")
		}
	}
	sx.Assert(sx.LiveGoroutines() == 0, "goroutine-of-the-process-remains-after-stop")
	if withStop {
		sx.Reach("udp-stopped-during-traffic")
	} else {
		sx.Reach("udp-delivered")
	}
}

type noClock struct{}
type noTimer struct{}

func (noTimer) Stop() bool                 { return true }
func (noTimer) Reset(d time.Duration) bool { return true }
func (*noClock) Now() time.Time            { return time.Unix(1700000000, 0) }
func (*noClock) AfterFunc(d time.Duration, f func()) collector.VerifTimer {
	return noTimer{}
}

// ---- the real Start(): listener / socket provided by the environment stubs

type fakeListener struct {
	conns  chan net.Conn
	closed chan struct{}
	nClose int
}

var errListenerClosed = errors.New("fakelistener: closed")

func (l *fakeListener) Accept() (net.Conn, error) {
	select {
	case c := <-l.conns:
		return c, nil
	case <-l.closed:
		return nil, errListenerClosed
	}
}
func (l *fakeListener) Close() error {
	l.nClose++
	if l.nClose == 1 {
		close(l.closed)
	}
	return nil
}
func (l *fakeListener) Addr() net.Addr { return udpAddr("10.0.0.9:4739") }

// Check_StartTCP: the real Start() (accept loop, per-connection handlers and
// readers) on a listener that hands out two in-memory connections; Stop from
// the caller, possibly while connections are still being accepted.
func Check_StartTCP() {
	cp, err := collector.VerifNewCollectingProcess(collector.CollectorInput{Protocol: "tcp", Address: "x"}, nil, 0)
	sx.Assert(err == nil, "init")
	withStop := sx.Choose("stopDuringTraffic", 2) == 1
	v := [2][2]uint32{{sx.U32("a1"), sx.U32("a2")}, {sx.U32("b1"), sx.U32("b2")}}
	var conns [2]*common.FakeConn
	l := &fakeListener{conns: make(chan net.Conn, 2), closed: make(chan struct{})}
	for c := 0; c < 2; c++ {
		dom := uint32(10 + c)
		stream := append(templateMsg(dom), dataMsg(dom, 1, v[c][0])...)
		stream = append(stream, dataMsg(dom, 2, v[c][1])...)
		conns[c] = &common.FakeConn{ReadData: stream, Remote: []string{"10.0.0.1:1000", "10.0.0.2:2000"}[c]}
		l.conns <- conns[c]
	}
	sx.RegisterListener(l)
	var got []*entities.Message
	var side sync.WaitGroup
	side.Add(2)
	go func() {
		defer side.Done()
		for m := range cp.GetMsgChan() {
			got = append(got, m)
		}
	}()
	go func() {
		defer side.Done()
		cp.Start()
	}()
	if !withStop {
		for conns[0].Closed == 0 || conns[1].Closed == 0 {
			runtime.Gosched()
		}
	} else {
		// Stop is only meaningful once Start is serving (Stop racing with the
		// beginning of Start is a caller error): wait for the first accept
		for len(l.conns) == 2 {
			runtime.Gosched()
		}
	}
	cp.Stop()
	cp.CloseMsgChan()
	side.Wait()
	sx.Assert(l.nClose >= 1, "listener-not-closed-by-stop")
	sx.Assert(cp.GetNumConnToCollector() == 0, "connection-count-not-back-to-zero")
	// every connection the accept loop took is closed
	for c := 0; c < 2; c++ {
		accepted := false
		for _, m := range got {
			if m.GetObsDomainID() == uint32(10+c) {
				accepted = true
			}
		}
		if accepted || !withStop {
			sx.Assert(conns[c].Closed >= 1, "accepted-connection-not-closed")
		}
	}
	perClient(got, v, withStop, "tcp")
	sx.Assert(sx.LiveGoroutines() == 0, "goroutine-of-the-process-remains-after-stop")
	if withStop {
		sx.Reach("start-tcp-stopped-during-traffic")
	} else {
		sx.Reach("start-tcp-all-delivered")
	}
}

func perClient(got []*entities.Message, v [2][2]uint32, withStop bool, what string) {
	for c := 0; c < 2; c++ {
		dom := uint32(10 + c)
		n := 0
		for _, m := range got {
			if m.GetObsDomainID() != dom {
				continue
			}
			if n == 0 {
				sx.Assert(m.GetSet().GetSetType() == entities.Template, what+"-order-within-client")
			} else {
				sx.Assert(m.GetSet().GetSetType() == entities.Data, what+"-order-within-client")
				el := m.GetSet().GetRecords()[0].GetOrderedElementList()
				sx.Assert(sx.And(m.GetSequenceNum() == uint32(n), el[0].GetUnsigned32Value() == v[c][n-1]), what+"-message-duplicated-reordered-corrupted-or-mixed-between-clients")
			}
			n++
		}
		sx.Assert(n <= 3, what+"-message-delivered-more-than-once")
		if !withStop {
			sx.Assert(n == 3, what+"-accepted-message-not-delivered")
		}
	}
}

// Check_StartUDP: the real Start() of the UDP server (socket read loop with
// its buffer handling, dispatch, per-client goroutines) on a stub socket that
// delivers the datagrams of two clients; Stop from the caller.
func Check_StartUDP() {
	cp, err := collector.VerifNewCollectingProcess(collector.CollectorInput{Protocol: "udp", Address: "10.0.0.9:4739", TemplateTTL: 100, MaxBufferSize: 128}, &noClock{}, 0)
	sx.Assert(err == nil, "init")
	v := [2][2]uint32{{sx.U32("a1"), sx.U32("a2")}, {sx.U32("b1"), sx.U32("b2")}}
	withStop := sx.Choose("stopDuringTraffic", 2) == 1
	order := sx.Choose("arrivalOrder", 2)
	seq := [][2]int{{0, 0}, {1, 0}, {0, 1}, {1, 1}, {0, 2}, {1, 2}}
	if order == 1 {
		seq = [][2]int{{1, 0}, {0, 0}, {0, 1}, {0, 2}, {1, 1}, {1, 2}}
	}
	if withStop {
		seq = seq[:4]
	}
	from := []string{"10.0.0.1:1000", "10.0.0.2:2000"}
	var payloads [][]byte
	var froms []string
	for _, s := range seq {
		c, i := s[0], s[1]
		dom := uint32(10 + c)
		if i == 0 {
			payloads = append(payloads, templateMsg(dom))
		} else {
			payloads = append(payloads, dataMsg(dom, uint32(i), v[c][i-1]))
		}
		froms = append(froms, from[c])
	}
	sx.RegisterDatagrams(payloads, froms)
	var got []*entities.Message
	var side sync.WaitGroup
	side.Add(2)
	go func() {
		defer side.Done()
		for m := range cp.GetMsgChan() {
			got = append(got, m)
		}
	}()
	go func() {
		defer side.Done()
		cp.Start()
	}()
	if !withStop {
		for len(got) < len(seq) {
			runtime.Gosched()
		}
	} else {
		// as above: wait until the read loop has taken its first datagram
		for sx.DatagramsRead() == 0 {
			runtime.Gosched()
		}
	}
	cp.Stop()
	cp.CloseMsgChan()
	side.Wait()
	sx.Assert(sx.UDPSocketClosed() >= 1, "socket-not-closed-by-stop")
	sx.Assert(cp.GetNumConnToCollector() == 0, "client-table-not-empty-after-stop")
	perClient(got, v, withStop, "udp")
	sx.Assert(sx.LiveGoroutines() == 0, "goroutine-of-the-process-remains-after-stop")
	if withStop {
		sx.Reach("start-udp-stopped-during-traffic")
	} else {
		sx.Reach("start-udp-all-delivered")
	}
}

// Check_UDPIdleTimeout: the real Start() of the UDP server; the idle timer of
// the first client fires (the harness lets its interval pass) at any point
// relative to that client's further datagrams.  Over UDP delivery is at most
// once: a datagram that meets its client's handler on the way out may be
// dropped, but nothing is duplicated, reordered or corrupted, the other client
// loses nothing, a client that keeps sending is served again by a new handler,
// and Stop leaves nothing behind.
func Check_UDPIdleTimeout() {
	cp, err := collector.VerifNewCollectingProcess(collector.CollectorInput{Protocol: "udp", Address: "10.0.0.9:4739", TemplateTTL: 100, MaxBufferSize: 128}, &noClock{}, 0)
	sx.Assert(err == nil, "init")
	v := [2][2]uint32{{sx.U32("a1"), sx.U32("a2")}, {sx.U32("b1"), sx.U32("b2")}}
	seq := [][2]int{{0, 0}, {1, 0}, {0, 1}, {0, 2}}
	from := []string{"10.0.0.1:1000", "10.0.0.2:2000"}
	var payloads [][]byte
	var froms []string
	for _, s := range seq {
		c, i := s[0], s[1]
		dom := uint32(10 + c)
		if i == 0 {
			payloads = append(payloads, templateMsg(dom))
		} else {
			payloads = append(payloads, dataMsg(dom, uint32(i), v[c][i-1]))
		}
		froms = append(froms, from[c])
	}
	sx.RegisterDatagrams(payloads, froms)
	var got []*entities.Message
	var side sync.WaitGroup
	side.Add(2)
	go func() {
		defer side.Done()
		for m := range cp.GetMsgChan() {
			got = append(got, m)
		}
	}()
	go func() {
		defer side.Done()
		cp.Start()
	}()
	// the first client's handler exists once its first datagram was dispatched
	for sx.NumTickers() == 0 {
		runtime.Gosched()
	}
	fired := sx.FireTicker(0)
	for sx.DatagramsRead() < len(seq) {
		runtime.Gosched()
	}
	sx.Settle()
	cp.Stop()
	cp.CloseMsgChan()
	side.Wait()
	sx.Assert(fired, "idle-timer-of-the-first-client")
	sx.Assert(sx.UDPSocketClosed() >= 1, "socket-not-closed-by-stop")
	sx.Assert(cp.GetNumConnToCollector() == 0, "client-table-not-empty-after-stop")
	for c := 0; c < 2; c++ {
		dom := uint32(10 + c)
		last := -1 // index within the client's stream of the last message delivered: 0 template, 1.. data
		n := 0
		for _, m := range got {
			if m.GetObsDomainID() != dom {
				continue
			}
			n++
			idx := 0
			if m.GetSet().GetSetType() == entities.Data {
				idx = int(m.GetSequenceNum())
				sx.Assert(idx >= 1 && idx <= 2, "udp-message-corrupted")
				el := m.GetSet().GetRecords()[0].GetOrderedElementList()
				sx.Assert(el[0].GetUnsigned32Value() == v[c][idx-1], "udp-message-corrupted-or-mixed-between-clients")
			}
			sx.Assert(idx > last, "udp-message-duplicated-or-reordered")
			last = idx
		}
		if c == 1 {
			sx.Assert(n == 1, "other-client-lost-a-datagram-because-of-a-neighbours-idle-timeout")
		} else {
			sx.Assert(n <= 3, "udp-message-delivered-more-than-once")
		}
	}
	sx.Assert(sx.LiveGoroutines() == 0, "goroutine-of-the-process-remains-after-stop")
	sx.Reach("udp-idle-timeout")
}
