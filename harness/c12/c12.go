// Package c12: collector under several clients (property C12) - a PARTIAL,
// bounded rendering: two TCP connections handled concurrently by the real
// handleTCPClient (each with its reader goroutine), a draining consumer and a
// Stop() issued from a third goroutine, on in-memory connections, under every
// interleaving of their synchronisation points within a preemption bound.
// Kernel sockets, the accept loop, UDP/TLS and the race detector are not
// covered.
package c12

import (
	"sync"

	"github.com/vmware/go-ipfix/pkg/collector"
	"github.com/vmware/go-ipfix/pkg/entities"

	"verifh/common"
	"verifh/ref"
	"verifh/sx"
)

func Setup() { common.Setup() }

const tplID = 400

func templateMsg(domain uint32) []byte {
	set := ref.U16(nil, 2)
	set = ref.U16(set, 0)
	set = ref.U16(set, tplID)
	set = ref.U16(set, 1)
	ie := common.IE(common.KU32)
	set = ref.FieldSpec(set, ie.ElementId, ie.Len, 0)
	set[3] = byte(len(set))
	return common.RefMessage(0, 0, domain, set)
}

func dataMsg(domain, seq, v uint32) []byte {
	set := ref.U16(nil, tplID)
	set = ref.U16(set, 8)
	set = ref.U32(set, v)
	return common.RefMessage(0, seq, domain, set)
}

// Check_TwoClients: exactly-once, in per-connection order, connection count
// back to zero, Stop returns, no goroutine of the process remains.
func Check_TwoClients() {
	cp, err := collector.VerifNewCollectingProcess(collector.CollectorInput{Protocol: "tcp", Address: "x"}, nil, 0)
	sx.Assert(err == nil, "init")
	withStop := sx.Choose("stopDuringTraffic", 2) == 1
	v := [2][2]uint32{{sx.U32("a1"), sx.U32("a2")}, {sx.U32("b1"), sx.U32("b2")}}
	var conns [2]*common.FakeConn
	for c := 0; c < 2; c++ {
		dom := uint32(10 + c)
		stream := append(templateMsg(dom), dataMsg(dom, 1, v[c][0])...)
		stream = append(stream, dataMsg(dom, 2, v[c][1])...)
		conns[c] = &common.FakeConn{ReadData: stream, Remote: []string{"10.0.0.1:1000", "10.0.0.2:2000"}[c]}
	}
	var got []*entities.Message
	var consumer sync.WaitGroup
	consumer.Add(1)
	go func() {
		defer consumer.Done()
		for m := range cp.GetMsgChan() {
			got = append(got, m)
		}
	}()
	var handlers sync.WaitGroup
	handlers.Add(2)
	for c := 0; c < 2; c++ {
		conn := conns[c]
		go func() {
			defer handlers.Done()
			cp.VerifHandleTCPClient(conn)
		}()
	}
	var stopper sync.WaitGroup
	if withStop {
		stopper.Add(1)
		go func() {
			defer stopper.Done()
			cp.Stop()
		}()
	}
	handlers.Wait()
	stopper.Wait()
	if !withStop {
		cp.Stop()
	}
	cp.CloseMsgChan()
	consumer.Wait()

	sx.Assert(cp.GetNumConnToCollector() == 0, "connection-count-not-back-to-zero")
	sx.Assert(conns[0].Closed >= 1 && conns[1].Closed >= 1, "connection-not-closed")
	// per connection: a prefix (all of them without an early Stop) of its messages, exactly once, in order
	for c := 0; c < 2; c++ {
		dom := uint32(10 + c)
		n := 0
		for _, m := range got {
			if m.GetObsDomainID() != dom {
				continue
			}
			switch n {
			case 0:
				sx.Assert(m.GetSet().GetSetType() == entities.Template, "order-within-connection")
			default:
				sx.Assert(m.GetSet().GetSetType() == entities.Data, "order-within-connection")
				el := m.GetSet().GetRecords()[0].GetOrderedElementList()
				sx.Assert(sx.And(m.GetSequenceNum() == uint32(n), el[0].GetUnsigned32Value() == v[c][n-1]), "message-duplicated-reordered-or-mixed-between-connections")
			}
			n++
		}
		sx.Assert(n <= 3, "message-delivered-more-than-once")
		if !withStop {
			sx.Assert(n == 3, "accepted-message-not-delivered")
		}
	}
	sx.Assert(sx.LiveGoroutines() == 0, "goroutine-of-the-process-remains-after-stop")
	if withStop {
		sx.Reach("stopped-during-traffic")
	} else {
		sx.Reach("all-delivered")
	}
}
