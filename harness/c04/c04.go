// Package c04: data is decoded with the right template - scoping, replacement,
// invalidation (property C04).
package c04

import (
	"time"

	"github.com/vmware/go-ipfix/pkg/collector"

	"verifh/common"
	"verifh/ref"
	"verifh/runner"
	"verifh/sx"
)

func Setup() { common.Setup() }

// a fake clock for the UDP flavour: time does not pass (C10 is about time)
type fixedClock struct{ timers int }
type nopTimer struct{}

func (nopTimer) Stop() bool                 { return true }
func (nopTimer) Reset(d time.Duration) bool { return true }
func (c *fixedClock) Now() time.Time        { return time.Unix(1700000000, 0) }
func (c *fixedClock) AfterFunc(d time.Duration, f func()) collector.VerifTimer {
	c.timers++
	return nopTimer{}
}

const (
	variantNone  = iota
	variantA     // one unsigned32
	variantB     // two unsigned16 (same record size: the decoded shape reveals which was used)
	variantC     // one unsigned32 with the same element id and length as A but enterprise 29305 (reverse element)
	variantS     // one variable-length string (interfaceName) DECLARED variable on the wire
	variantEmpty // a zero-field template: nothing can be decoded against it
	variantS4    // the same registry string declared with fixed length 4 on the wire (the library keeps the registry's variable length)
)

type entry struct {
	dom     uint32
	id      uint16
	variant int
}

// model: last valid template wins; a bad template whose id was read removes.
type model struct{ es []entry }

func (m *model) find(dom uint32, id uint16) int {
	for i := range m.es {
		if m.es[i].dom == dom && m.es[i].id == id {
			return i
		}
	}
	return -1
}

func (m *model) set(dom uint32, id uint16, v int) {
	if i := m.find(dom, id); i >= 0 {
		m.es[i].variant = v
		return
	}
	m.es = append(m.es, entry{dom, id, v})
}

func (m *model) remove(dom uint32, id uint16) {
	if i := m.find(dom, id); i >= 0 {
		m.es = append(m.es[:i], m.es[i+1:]...)
	}
}

func templatePkt(dom uint32, id uint16, variant int) []byte {
	pkt := ref.Header(0, 0, 0, dom, 2, 0)
	pkt = ref.U16(pkt, id)
	if variant == variantA {
		pkt = ref.U16(pkt, 1)
		ie := common.IE(common.KU32)
		return ref.FieldSpec(pkt, ie.ElementId, ie.Len, 0)
	}
	if variant == variantS || variant == variantS4 {
		pkt = ref.U16(pkt, 1)
		ie := common.IE(common.KString)
		l := ie.Len
		if variant == variantS4 {
			l = 4
		}
		return ref.FieldSpec(pkt, ie.ElementId, l, 0)
	}
	if variant == variantC {
		pkt = ref.U16(pkt, 1)
		ie := common.IE(common.KU32)
		return ref.FieldSpec(pkt, ie.ElementId, ie.Len, 29305)
	}
	pkt = ref.U16(pkt, 2)
	ie := common.IE(common.KU16)
	pkt = ref.FieldSpec(pkt, ie.ElementId, ie.Len, 0)
	return ref.FieldSpec(pkt, 11, 2, 0) // destinationTransportPort
}

// bad templates: (0) field specifier cut short after the template id and count
// were read; (1) unknown element (strict mode).
func badTemplatePkt(dom uint32, id uint16, how int) []byte {
	pkt := ref.Header(0, 0, 0, dom, 2, 0)
	pkt = ref.U16(pkt, id)
	pkt = ref.U16(pkt, 1)
	if how == 0 {
		return append(pkt, 0, 10) // 2 of 4 specifier bytes
	}
	return ref.FieldSpec(pkt, 999, 4, 0)
}

// Check_History: k messages, each a template (A or B), a bad template or data,
// each for a SYMBOLIC (observation domain, template id): the solver explores
// every aliasing pattern between the keys.
func Check_History() {
	if sx.Tier() > 0 && sx.Choose("family", 2) == 1 {
		// thorough: besides depth 3 over the full menu, depth 4 over a reduced menu
		// (templates A and B, one kind of bad template, data); depth 4 over the full
		// menu is 0.47 M histories and 18 minutes
		history(sx.Param("k", 4), nil, true)
		return
	}
	history(sx.Param("k", 3), nil, false)
}

// Check_HistoryAfterUse: one level deeper for the histories that matter most
// for replacement: they start with a template for some key and a data set (for
// a key that may or may not be the same - the solver's choice), followed by
// 2 (quick) / 3 (thorough) free messages.
func Check_HistoryAfterUse() {
	if sx.Tier() > 0 && sx.Choose("family", 2) == 1 {
		history(5, []int{1, 3}, true) // thorough: 3 free messages over the reduced menu
		return
	}
	history(4, []int{1, 3}, false)
}

func history(k int, forced []int, reduced bool) {
	proto := []string{"tcp", "udp"}[sx.Choose("protocol", 2)]
	var clk collector.VerifClock
	if proto == "udp" {
		clk = &fixedClock{}
	}
	cp, err := collector.VerifNewCollectingProcess(collector.CollectorInput{Protocol: proto, Address: "x", TemplateTTL: 100}, clk, 16)
	sx.Assert(err == nil, "init")
	m := &model{}
	usedEmpty := false
	extraKeys := 0 // (domain, 2) holding a zero-field template, if the library stored one
	for step := 0; step < k; step++ {
		dom := sx.U32("domain")
		id := sx.U16("templateID")
		sx.Assume(id >= 256)
		nkinds := 3
		if !usedEmpty && !reduced {
			nkinds = 4 // at most one zero-field template per history (keeps the history count in bounds)
		}
		var kind int
		if step < len(forced) {
			kind = forced[step]
		} else {
			kind = sx.Choose("message", nkinds) + 1
		}
		switch kind {
		case 4:
			// a template record with field count 0, for this key or with the record id
			// 2 ("all templates" in RFC 7011 withdrawals, which the library does not
			// implement): it defines an empty template for exactly its own (domain, id)
			// - data for that key is refused from then on - and touches no other key
			usedEmpty = true
			rid := id
			if sx.Choose("zeroFieldRecordID", 2) == 1 {
				rid = 2
			}
			pkt := ref.Header(0, 0, 0, dom, 2, 0)
			pkt = ref.U16(pkt, rid)
			pkt = ref.U16(pkt, 0)
			cp.VerifDecodePacket(pkt, "1.2.3.4:5") // accepted or refused: either way only (dom, rid) may change
			if rid == id {
				m.set(dom, id, variantEmpty)
			} else {
				extraKeys = 1
			}
			sx.Reach("zero-field-template")
		case 1:
			variants := []int{variantA, variantB, variantC, variantS, variantS4}
			if reduced {
				variants = variants[:2]
			}
			variant := variants[sx.Choose("variant", len(variants))]
			_, err := cp.VerifDecodePacket(templatePkt(dom, id, variant), "1.2.3.4:5")
			sx.Assert(err == nil, "valid-template-refused")
			m.set(dom, id, variant)
		case 2:
			nbad := 2
			if reduced {
				nbad = 1
			}
			_, err := cp.VerifDecodePacket(badTemplatePkt(dom, id, sx.Choose("bad", nbad)), "1.2.3.4:5")
			sx.Assert(err != nil, "bad-template-accepted")
			m.remove(dom, id)
			sx.Reach("bad-template")
		case 3:
			v := sx.U32("value")
			pkt := ref.Header(0, 0, 0, dom, id, 0)
			i := m.find(dom, id)
			if !reduced && forced == nil && sx.Choose("emptyDataSet", 2) == 1 {
				// a data set without any record: still needs a template for its key
				_, err := cp.VerifDecodePacket(pkt, "1.2.3.4:5")
				if i < 0 {
					sx.Assert(err != nil, "empty-data-set-accepted-without-a-template-for-its-key")
				}
				sx.Reach("empty-data-set")
				break
			}
			pkt = ref.U32(pkt, v)
			if i >= 0 && (m.es[i].variant == variantS || m.es[i].variant == variantS4) {
				// the same 4 bytes read as a string field: 1-byte length 3 + 3 bytes
				sx.Assume(v>>24 == 3)
			}
			msg, err := cp.VerifDecodePacket(pkt, "1.2.3.4:5")
			if i >= 0 && m.es[i].variant == variantEmpty {
				sx.Assert(err != nil, "data-decoded-against-a-zero-field-template")
				sx.Reach("data-rejected-empty")
				break
			}
			if i < 0 {
				sx.Assert(err != nil, "data-decoded-without-a-template-for-its-key")
				sx.Reach("data-rejected")
				break
			}
			sx.Assert(err == nil, "data-refused-although-a-template-is-in-force")
			recs := msg.GetSet().GetRecords()
			sx.Assert(len(recs) == 1, "one-record")
			el := recs[0].GetOrderedElementList()
			if m.es[i].variant == variantS || m.es[i].variant == variantS4 {
				sx.Assert(len(el) == 1, "decoded-with-the-wrong-template")
				want := string([]byte{byte(v >> 16), byte(v >> 8), byte(v)})
				sx.Assert(el[0].GetStringValue() == want, "string-decoded-under-another-templates-influence")
				sx.Reach("data-decoded-S")
			} else if m.es[i].variant == variantA || m.es[i].variant == variantC {
				sx.Assert(len(el) == 1, "decoded-with-the-wrong-template")
				sx.Assert(el[0].GetUnsigned32Value() == v, "value-A")
				wantEnt := uint32(0)
				if m.es[i].variant == variantC {
					wantEnt = 29305
					sx.Reach("data-decoded-C")
				} else {
					sx.Reach("data-decoded-A")
				}
				sx.Assert(el[0].GetInfoElement().EnterpriseId == wantEnt, "decoded-with-a-stale-template-definition")
			} else {
				sx.Assert(len(el) == 2, "decoded-with-the-wrong-template")
				sx.Assert(sx.And(el[0].GetUnsigned16Value() == uint16(v>>16), el[1].GetUnsigned16Value() == uint16(v)), "value-B")
				sx.Reach("data-decoded-B")
			}
		}
	}
	// final store equals the model
	snap := cp.VerifTemplates()
	nEmpty := 0
	for _, e := range m.es {
		if e.variant == variantEmpty {
			nEmpty++
		}
	}
	// a zero-field template may be stored as an empty definition or not stored at all
	sx.Assert(len(snap) <= len(m.es)+extraKeys && len(snap) >= len(m.es)-nEmpty, "stored-template-count")
	for _, e := range m.es {
		if e.variant == variantEmpty {
			for _, t := range snap {
				if t.ObsDomainID == e.dom && t.TemplateID == e.id {
					sx.Assert(len(t.IEs) == 0, "stale-definition-kept-after-zero-field-template")
				}
			}
			continue
		}
		found := false
		for _, t := range snap {
			if t.ObsDomainID == e.dom && t.TemplateID == e.id {
				found = true
				want := 1
				if e.variant == variantB {
					want = 2
				}
				sx.Assert(len(t.IEs) == want, "stored-template-shape")
				if e.variant == variantA || e.variant == variantC {
					wantEnt := uint32(0)
					if e.variant == variantC {
						wantEnt = 29305
					}
					sx.Assert(t.IEs[0].EnterpriseId == wantEnt, "stored-template-definition")
				}
			}
		}
		sx.Assert(found, "template-missing-from-store")
	}
	sx.Reach("final")
}

var Table = map[string]runner.Entry{
	"Check_History":         {Setup: Setup, Fn: Check_History},
	"Check_HistoryAfterUse": {Setup: Setup, Fn: Check_HistoryAfterUse},
}
