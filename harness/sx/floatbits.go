package sx

import "math"

func mathFloat32bits(f float32) uint32 { return math.Float32bits(f) }
func mathFloat64bits(f float64) uint64 { return math.Float64bits(f) }
