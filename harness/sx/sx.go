// Package sx is the harness API of the gosx symbolic executor.
//
// Under the engine every function below is an intrinsic: draws become
// symbolic variables (U8..I64, Bool, Bytes, Str) or exhaustive structural
// splits (Range, Choose); Assume adds to the path condition; Assert is an
// obligation discharged by the SMT solver.  Compiled natively (this file) the
// same functions read a recorded counterexample or concrete vector
// (SX_REPLAY=<file>), so the identical harness re-runs against the real build.
package sx

import (
	"encoding/hex"
	"encoding/json"
	"fmt"
	"os"
	"reflect"
	"strings"
)

type draw struct {
	Name  string `json:"name"`
	Kind  string `json:"kind"`
	W     int    `json:"w,omitempty"`
	Val   uint64 `json:"val"`
	Bytes []byte `json:"bytes,omitempty"`
}

type replayFile struct {
	Harness string           `json:"harness"`
	Tier    int              `json:"tier"`
	Params  map[string]int64 `json:"params"`
	Draws   []draw           `json:"draws"`
	Expect  string           `json:"expect"`
}

var (
	rf       *replayFile
	pos      int
	Trace    []string
	Outcome  string
	Reached  []string
	loadedOK bool
)

// Stop is panicked to end a native run early (assumption failed, assertion failed).
type Stop struct{ Outcome string }

// Load reads the replay file (native only).
func Load(path string) error {
	b, err := os.ReadFile(path)
	if err != nil {
		return err
	}
	r := &replayFile{}
	if err := json.Unmarshal(b, r); err != nil {
		return err
	}
	rf = r
	pos = 0
	Trace = nil
	Outcome = ""
	Reached = nil
	loadedOK = true
	return nil
}

// LoadDraws installs a replay record directly (native only).
func LoadRaw(b []byte) error {
	r := &replayFile{}
	if err := json.Unmarshal(b, r); err != nil {
		return err
	}
	rf = r
	pos = 0
	Trace = nil
	Outcome = ""
	Reached = nil
	loadedOK = true
	return nil
}

func next(name, kind string) draw {
	if rf == nil {
		panic(Stop{"replay-mismatch: no replay file loaded"})
	}
	if pos >= len(rf.Draws) {
		panic(Stop{fmt.Sprintf("replay-mismatch: draw %d (%s) beyond recorded draws", pos, name)})
	}
	d := rf.Draws[pos]
	pos++
	if d.Name != name {
		panic(Stop{fmt.Sprintf("replay-mismatch: draw %d is %q, recorded %q", pos-1, name, d.Name)})
	}
	return d
}

func U8(name string) uint8   { return uint8(next(name, "int").Val) }
func U16(name string) uint16 { return uint16(next(name, "int").Val) }
func U32(name string) uint32 { return uint32(next(name, "int").Val) }
func U64(name string) uint64 { return next(name, "int").Val }
func I8(name string) int8    { return int8(next(name, "int").Val) }
func I16(name string) int16  { return int16(next(name, "int").Val) }
func I32(name string) int32  { return int32(next(name, "int").Val) }
func I64(name string) int64  { return int64(next(name, "int").Val) }
func Int(name string) int    { return int(int64(next(name, "int").Val)) }
func Bool(name string) bool  { return next(name, "bool").Val != 0 }

// Bytes returns n arbitrary bytes.
func Bytes(name string, n int) []byte {
	d := next(name, "bytes")
	b := make([]byte, n)
	copy(b, d.Bytes)
	return b
}

// Str returns an arbitrary string of exactly n bytes.
func Str(name string, n int) string {
	d := next(name, "str")
	b := make([]byte, n)
	copy(b, d.Bytes)
	return string(b)
}

// Range returns every integer in [lo, hi] (one path each).
func Range(name string, lo, hi int) int { return int(int64(next(name, "range").Val)) }

// Choose returns every integer in [0, n) (one path each).
func Choose(name string, n int) int { return int(next(name, "range").Val) }

// Assume restricts the inputs considered; place it before the code it constrains.
func Assume(c bool) {
	if !c {
		panic(Stop{"assume-failed"})
	}
}

// Assert states the property.
func Assert(c bool, label string) {
	if !c {
		panic(Stop{"assert:" + label})
	}
}

// Reach is a vacuity guard: some feasible path must get here.
func Reach(label string) { Reached = append(Reached, label) }

// Observe records concrete values for the translator validation.
func Observe(label string, vals ...interface{}) {
	var sb strings.Builder
	sb.WriteString(label)
	for _, v := range vals {
		sb.WriteByte(' ')
		sb.WriteString(obs(reflect.ValueOf(v)))
	}
	Trace = append(Trace, sb.String())
}

func obs(v reflect.Value) string {
	if !v.IsValid() {
		return "nil"
	}
	switch v.Kind() {
	case reflect.Int, reflect.Int8, reflect.Int16, reflect.Int32, reflect.Int64:
		return fmt.Sprintf("%d", v.Int())
	case reflect.Uint, reflect.Uint8, reflect.Uint16, reflect.Uint32, reflect.Uint64, reflect.Uintptr:
		return fmt.Sprintf("%d", v.Uint())
	case reflect.Float32:
		return fmt.Sprintf("f%x", uint64(mathFloat32bits(float32(v.Float()))))
	case reflect.Float64:
		return fmt.Sprintf("f%x", mathFloat64bits(v.Float()))
	case reflect.Bool:
		return fmt.Sprintf("%v", v.Bool())
	case reflect.String:
		return fmt.Sprintf("%q", v.String())
	case reflect.Slice:
		if v.IsNil() {
			return "x"
		}
		if v.Type().Elem().Kind() == reflect.Uint8 {
			return "x" + hex.EncodeToString(v.Bytes())
		}
		var sb strings.Builder
		sb.WriteString("[")
		for i := 0; i < v.Len(); i++ {
			if i > 0 {
				sb.WriteString(",")
			}
			sb.WriteString(obs(v.Index(i)))
		}
		sb.WriteString("]")
		return sb.String()
	case reflect.Ptr:
		if v.IsNil() {
			return "nilptr"
		}
		return "ptr"
	case reflect.Interface:
		if v.IsNil() {
			return "nil"
		}
		return obs(v.Elem())
	}
	return fmt.Sprintf("<%s>", v.Kind())
}

// Tier is 0 for the quick tier, 1 for thorough.
func Tier() int {
	if rf != nil {
		return rf.Tier
	}
	return 0
}

// Param returns a numeric parameter of the run (bounds).
func Param(name string, def int) int {
	if rf != nil {
		if v, ok := rf.Params[name]; ok {
			return int(v)
		}
	}
	return def
}

// Symbolic reports whether draws are symbolic (false natively and in the
// engine's concrete mode).
func Symbolic() bool { return false }

// Note records an assumption of the harness in the evidence.
func Note(s string) {}

// Ite64 is c ? a : b without a branch.
func Ite64(c bool, a, b uint64) uint64 {
	if c {
		return a
	}
	return b
}

// And is a conjunction without branches (one solver term).
func And(cs ...bool) bool {
	for _, c := range cs {
		if !c {
			return false
		}
	}
	return true
}

// Or is a disjunction without branches.
func Or(cs ...bool) bool {
	for _, c := range cs {
		if c {
			return true
		}
	}
	return false
}

// Implies is !a || b without a branch.
func Implies(a, b bool) bool { return !a || b }

// EqBytes compares two byte slices without a branch.
func EqBytes(a, b []byte) bool { return string(a) == string(b) }

// StubCount returns how many times the named environment function (e.g.
// "crypto/tls.Dial") was called on this path.  Engine only: natively the real
// environment is in place and nothing is recorded.
func StubCount(name string) int { return 0 }

// StubArg returns argument arg of call number call of a recorded environment
// function (engine only).
func StubArg(name string, call, arg int) interface{} { return nil }

// PoolHas reports whether the recorded certificate pool received exactly pem
// (engine only).
func PoolHas(pool interface{}, pem []byte) bool { return false }

// Native reports whether the harness runs natively (real environment).
func Native() bool { return true }

// MonitorBegin starts the lock-discipline monitor (engine only): every cell
// reachable from the roots is shared; role names the goroutine role that
// performs the following operation; selfConcurrent says whether that role
// may run concurrently with itself.
func MonitorBegin(role string, selfConcurrent bool, roots ...interface{}) {}

// MonitorEnd ends the monitored region (checks that no shared mutex is held).
func MonitorEnd() {}

// MonitorIgnore declares objects that stand for the environment (e.g. a fake
// net.Conn modelling a concurrency-safe socket): their cells are not shared state.
func MonitorIgnore(roots ...interface{}) {}

// LiveGoroutines returns the number of goroutines spawned on this path that
// have not finished (engine only; natively 0).
func LiveGoroutines() int { return 0 }

// RegisterListener makes the next net.Listen of the code under test return l
// (engine only: the environment's listening socket is the harness's).
func RegisterListener(l interface{}) {}

// RegisterDatagrams makes net.ListenUDP return a socket whose ReadFromUDP
// delivers payloads[i] from address from[i], one per call, then blocks until
// the socket is closed (engine only).
func RegisterDatagrams(payloads [][]byte, from []string) {}

// DatagramsRead is the number of registered datagrams read so far.
func DatagramsRead() int { return 0 }

// UDPSocketClosed is the number of Close calls on the stub UDP socket.
func UDPSocketClosed() int { return 0 }

// RegisterConn makes the next net.Dial of the code under test return c
// (engine only: the environment's socket is the harness's in-memory connection).
func RegisterConn(c interface{}) {}

// FireTicker: the interval of the k-th time.Ticker created by the code under
// test on this path has passed (engine only; natively tickers follow the clock).
func FireTicker(k int) bool { return false }

// NumTickers is the number of tickers created so far on this path.
func NumTickers() int { return 0 }

// TickerStopped reports whether the k-th ticker has been stopped.
func TickerStopped(k int) bool { return false }

// Settle lets the other goroutines run until they block.
func Settle() {}

// AdvanceTime lets ns nanoseconds of virtual time pass for the tickers of the
// code under test (engine only); returns the number of ticks delivered.
func AdvanceTime(ns int64) int { return 0 }

// RegisterTLSListener makes crypto/tls.NewListener return l (engine only).
func RegisterTLSListener(l interface{}) {}
