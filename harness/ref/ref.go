// Package ref is an RFC 7011 encoder/decoder written from the RFC for the
// oracles of the harnesses.  It shares no code with go-ipfix.
package ref

// Big-endian appenders.

func U8(b []byte, v uint8) []byte   { return append(b, v) }
func U16(b []byte, v uint16) []byte { return append(b, byte(v>>8), byte(v)) }
func U32(b []byte, v uint32) []byte {
	return append(b, byte(v>>24), byte(v>>16), byte(v>>8), byte(v))
}
func U64(b []byte, v uint64) []byte {
	return append(b, byte(v>>56), byte(v>>48), byte(v>>40), byte(v>>32), byte(v>>24), byte(v>>16), byte(v>>8), byte(v))
}

// Var appends a variable-length field: 1-byte length below 255, otherwise
// 0xFF followed by a 2-byte length (RFC 7011 section 7).
func Var(b []byte, payload []byte) []byte {
	n := len(payload)
	if n < 255 {
		b = append(b, byte(n))
	} else {
		b = append(b, 0xFF, byte(n>>8), byte(n))
	}
	return append(b, payload...)
}

func VarStr(b []byte, payload string) []byte {
	n := len(payload)
	if n < 255 {
		b = append(b, byte(n))
	} else {
		b = append(b, 0xFF, byte(n>>8), byte(n))
	}
	return append(b, payload...)
}

// Bool encodes the RFC 7011 boolean: 1 = true, 2 = false.
func Bool(b []byte, v bool) []byte {
	if v {
		return append(b, 1)
	}
	return append(b, 2)
}

// Readers.

func GetU16(b []byte, off int) uint16 { return uint16(b[off])<<8 | uint16(b[off+1]) }
func GetU32(b []byte, off int) uint32 {
	return uint32(b[off])<<24 | uint32(b[off+1])<<16 | uint32(b[off+2])<<8 | uint32(b[off+3])
}
func GetU64(b []byte, off int) uint64 {
	return uint64(GetU32(b, off))<<32 | uint64(GetU32(b, off+4))
}

// Header builds an IPFIX message header + set header.
func Header(length uint16, exportTime, seq, domain uint32, setID, setLen uint16) []byte {
	b := make([]byte, 0, 20)
	b = U16(b, 10)
	b = U16(b, length)
	b = U32(b, exportTime)
	b = U32(b, seq)
	b = U32(b, domain)
	b = U16(b, setID)
	b = U16(b, setLen)
	return b
}

// FieldSpec appends a template field specifier.
func FieldSpec(b []byte, id uint16, length uint16, enterprise uint32) []byte {
	if enterprise != 0 {
		b = U16(b, id|0x8000)
		b = U16(b, length)
		return U32(b, enterprise)
	}
	b = U16(b, id)
	return U16(b, length)
}
