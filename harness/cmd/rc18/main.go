package main

import (
	"verifh/c18"
	"verifh/runner"
)

func main() { runner.Main(c18.Table) }
