package main

import (
	"verifh/c06"
	"verifh/runner"
)

func main() { runner.Main(c06.Table) }
