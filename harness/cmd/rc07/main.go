package main

import (
	"verifh/c07"
	"verifh/runner"
)

func main() { runner.Main(c07.Table) }
