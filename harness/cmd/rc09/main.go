package main

import (
	"verifh/c09"
	"verifh/runner"
)

func main() { runner.Main(c09.Table) }
