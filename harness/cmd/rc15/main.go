package main

import (
	"verifh/c15"
	"verifh/runner"
)

func main() {
	runner.Main(map[string]runner.Entry{
		"Check_Codec":             {c15.Setup, c15.Check_Codec},
		"Check_TemplateValue":     {c15.Setup, c15.Check_TemplateValue},
		"Check_IncrementalRecord": {c15.Setup, c15.Check_IncrementalRecord},
	})
}
