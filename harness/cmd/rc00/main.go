package main

import (
	"verifh/c00"
	"verifh/runner"
)

func main() {
	runner.Main(map[string]runner.Entry{
		"Check_Arith":     {c00.Setup, c00.Check_Arith},
		"Check_Bug":       {c00.Setup, c00.Check_Bug},
		"Check_StdModels": {c00.Setup, c00.Check_StdModels},
		"Check_UTF8":      {c00.Setup, c00.Check_UTF8},
	})
}
