package main

import (
	"verifh/c16"
	"verifh/runner"
)

func main() { runner.Main(c16.Table) }
