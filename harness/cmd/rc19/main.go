package main

import (
	"verifh/c19"
	"verifh/runner"
)

func main() { runner.Main(c19.Table) }
