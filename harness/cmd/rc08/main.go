package main

import (
	"verifh/c08"
	"verifh/runner"
)

func main() { runner.Main(c08.Table) }
