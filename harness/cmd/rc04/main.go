package main

import (
	"verifh/c04"
	"verifh/runner"
)

func main() { runner.Main(c04.Table) }
