package main

import (
	"verifh/c01"
	"verifh/runner"
)

func main() { runner.Main(c01.Table) }
