package main

import (
	"verifh/c17"
	"verifh/runner"
)

func main() { runner.Main(c17.Table) }
