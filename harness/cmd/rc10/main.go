package main

import (
	"verifh/c10"
	"verifh/runner"
)

func main() { runner.Main(c10.Table) }
