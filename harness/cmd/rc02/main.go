package main

import (
	"verifh/c02"
	"verifh/runner"
)

func main() { runner.Main(c02.Table) }
