package main

import (
	"verifh/c14"
	"verifh/runner"
)

func main() { runner.Main(c14.Table) }
