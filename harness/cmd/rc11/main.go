package main

import (
	"verifh/c11"
	"verifh/runner"
)

func main() { runner.Main(c11.Table) }
