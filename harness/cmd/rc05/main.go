package main

import (
	"verifh/c05"
	"verifh/runner"
)

func main() { runner.Main(c05.Table) }
