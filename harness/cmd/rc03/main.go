package main

import (
	"verifh/c03"
	"verifh/runner"
)

func main() { runner.Main(c03.Table) }
