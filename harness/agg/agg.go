// Package agg builds aggregation processes and flow records for the C05, C06,
// C07 and C13 harnesses.
package agg

import (
	"net"
	"time"

	"github.com/vmware/go-ipfix/pkg/entities"
	"github.com/vmware/go-ipfix/pkg/intermediate"
	"github.com/vmware/go-ipfix/pkg/registry"
)

var (
	CorrelateFields = []string{
		"sourcePodName", "sourcePodNamespace", "sourceNodeName",
		"destinationPodName", "destinationPodNamespace", "destinationNodeName",
		"destinationClusterIPv4", "destinationServicePort",
		"ingressNetworkPolicyRuleAction", "egressNetworkPolicyRuleAction", "ingressNetworkPolicyRulePriority",
	}
	NonStats = []string{"flowEndSeconds", "flowEndReason", "tcpState"}
	Stats    = []string{
		"packetTotalCount", "packetDeltaCount", "octetTotalCount", "octetDeltaCount",
		"reversePacketTotalCount", "reversePacketDeltaCount", "reverseOctetTotalCount", "reverseOctetDeltaCount",
	}
	SrcStats = []string{
		"packetTotalCountFromSourceNode", "packetDeltaCountFromSourceNode", "octetTotalCountFromSourceNode", "octetDeltaCountFromSourceNode",
		"reversePacketTotalCountFromSourceNode", "reversePacketDeltaCountFromSourceNode", "reverseOctetTotalCountFromSourceNode", "reverseOctetDeltaCountFromSourceNode",
	}
	DstStats = []string{
		"packetTotalCountFromDestinationNode", "packetDeltaCountFromDestinationNode", "octetTotalCountFromDestinationNode", "octetDeltaCountFromDestinationNode",
		"reversePacketTotalCountFromDestinationNode", "reversePacketDeltaCountFromDestinationNode", "reverseOctetTotalCountFromDestinationNode", "reverseOctetDeltaCountFromDestinationNode",
	}
	EndSeconds    = []string{"flowEndSecondsFromSourceNode", "flowEndSecondsFromDestinationNode"}
	Throughput    = []string{"throughput", "reverseThroughput"}
	SrcThroughput = []string{"throughputFromSourceNode", "reverseThroughputFromSourceNode"}
	DstThroughput = []string{"throughputFromDestinationNode", "reverseThroughputFromDestinationNode"}
)

// IsDelta mirrors the naming convention of the element lists.
func IsDelta(i int) bool { return i == 1 || i == 3 || i == 5 || i == 7 }

const (
	IdxOctetTotal        = 2
	IdxReverseOctetTotal = 6
)

// virtual-time granularity: every duration used by the harnesses is a
// multiple of Tick (about 1.07 s), so that a native replay against the real
// clock (which advances by microseconds during a run) keeps every strict
// ordering of the counterexample.
const Tick = time.Duration(1) << 30

const (
	ActiveTimeout   = 100 * Tick
	InactiveTimeout = 150 * Tick
)

// New builds an aggregation process without workers.
func New(withStats bool) *intermediate.AggregationProcess {
	in := intermediate.AggregationInput{
		MessageChan:           make(chan *entities.Message),
		WorkerNum:             1,
		CorrelateFields:       CorrelateFields,
		ActiveExpiryTimeout:   ActiveTimeout,
		InactiveExpiryTimeout: InactiveTimeout,
	}
	if withStats {
		in.AggregateElements = &intermediate.AggregationElements{
			NonStatsElements:                   NonStats,
			StatsElements:                      Stats,
			AggregatedSourceStatsElements:      SrcStats,
			AggregatedDestinationStatsElements: DstStats,
			AntreaFlowEndSecondsElements:       EndSeconds,
			ThroughputElements:                 Throughput,
			SourceThroughputElements:           SrcThroughput,
			DestinationThroughputElements:      DstThroughput,
		}
	}
	a, err := intermediate.InitAggregationProcess(in)
	if err != nil {
		panic("agg.New: " + err.Error())
	}
	return a
}

// Key is one of the pooled 5-tuples (concrete: the flow key is only compared
// for equality and net.IP.String() of symbolic bytes is outside the encoding).
type Key struct {
	V6       bool
	Src, Dst string
	SPort    uint16
	DPort    uint16
	Proto    uint8
}

var Keys = []Key{
	{false, "10.0.0.1", "10.0.0.2", 1234, 5678, 6},
	{false, "10.0.0.1", "10.0.0.2", 1234, 5679, 6},
	{true, "2001:0:3238:dfe1:63::fefb", "2001:0:3238:dfe1:63::fefc", 1234, 5678, 17},
	{false, "10.0.0.3", "10.0.0.2", 1, 2, 17},
}

func (k Key) FlowKey() intermediate.FlowKey {
	return intermediate.FlowKey{SourceAddress: k.Src, DestinationAddress: k.Dst, Protocol: k.Proto, SourcePort: k.SPort, DestinationPort: k.DPort}
}

// Rec describes one incoming flow record.
type Rec struct {
	Key               Key
	SrcPod, DstPod    string
	SrcNS, DstNS      string
	SrcNode, DstNode  string
	ClusterIP         []byte // 4 bytes
	ServicePort       uint16
	IngressAction     uint8
	EgressAction      uint8
	IngressPriority   int32
	FlowType          uint8
	Start, End        uint32
	EndReason         uint8
	TCPState          string
	Stat              [8]uint64
	OmitPolicyActions bool
	// AltOrder: the exporter of this record lists its elements in another order
	// (pod names and namespaces of source and destination swapped in position,
	// the statistics first): templates of different nodes need not agree
	AltOrder bool
	// OmitStart: the record lacks flowStartSeconds (aggregation of such a record fails)
	OmitStart bool
}

func ie(name string, ent uint32) *entities.InfoElement {
	e, err := registry.GetInfoElement(name, ent)
	if err != nil {
		panic("agg: unknown element " + name)
	}
	return e
}

// Message wraps records into a decoded-style data message.
func Message(recs ...Rec) *entities.Message {
	set := entities.NewSet(true)
	if err := set.PrepareSet(entities.Data, 256); err != nil {
		panic(err)
	}
	for _, r := range recs {
		if err := set.AddRecord(Elements(r), 256); err != nil {
			panic(err)
		}
	}
	m := entities.NewMessage(true)
	m.SetVersion(10)
	m.SetObsDomainID(1)
	m.SetExportAddress("127.0.0.1")
	m.AddSet(set)
	return m
}

// Elements builds the element list of a record.
func Elements(r Rec) []entities.InfoElementWithValue {
	A := registry.AntreaEnterpriseID
	var els []entities.InfoElementWithValue
	if r.Key.V6 {
		els = append(els,
			entities.NewIPAddressInfoElement(ie("sourceIPv6Address", 0), net.ParseIP(r.Key.Src)),
			entities.NewIPAddressInfoElement(ie("destinationIPv6Address", 0), net.ParseIP(r.Key.Dst)))
	} else {
		els = append(els,
			entities.NewIPAddressInfoElement(ie("sourceIPv4Address", 0), net.ParseIP(r.Key.Src).To4()),
			entities.NewIPAddressInfoElement(ie("destinationIPv4Address", 0), net.ParseIP(r.Key.Dst).To4()))
	}
	cip := r.ClusterIP
	if cip == nil {
		cip = []byte{0, 0, 0, 0}
	}
	els = append(els,
		entities.NewUnsigned16InfoElement(ie("sourceTransportPort", 0), r.Key.SPort),
		entities.NewUnsigned16InfoElement(ie("destinationTransportPort", 0), r.Key.DPort),
		entities.NewUnsigned8InfoElement(ie("protocolIdentifier", 0), r.Key.Proto),
		entities.NewStringInfoElement(ie("sourcePodName", A), r.SrcPod),
		entities.NewStringInfoElement(ie("sourcePodNamespace", A), r.SrcNS),
		entities.NewStringInfoElement(ie("sourceNodeName", A), r.SrcNode),
		entities.NewStringInfoElement(ie("destinationPodName", A), r.DstPod),
		entities.NewStringInfoElement(ie("destinationPodNamespace", A), r.DstNS),
		entities.NewStringInfoElement(ie("destinationNodeName", A), r.DstNode),
		entities.NewIPAddressInfoElement(ie("destinationClusterIPv4", A), net.IP(cip)),
		entities.NewUnsigned16InfoElement(ie("destinationServicePort", A), r.ServicePort),
		entities.NewSigned32InfoElement(ie("ingressNetworkPolicyRulePriority", A), r.IngressPriority),
		entities.NewUnsigned8InfoElement(ie("flowType", A), r.FlowType),
		entities.NewDateTimeSecondsInfoElement(ie("flowStartSeconds", 0), r.Start),
		entities.NewDateTimeSecondsInfoElement(ie("flowEndSeconds", 0), r.End),
		entities.NewUnsigned8InfoElement(ie("flowEndReason", 0), r.EndReason),
		entities.NewStringInfoElement(ie("tcpState", A), r.TCPState),
	)
	if !r.OmitPolicyActions {
		els = append(els,
			entities.NewUnsigned8InfoElement(ie("ingressNetworkPolicyRuleAction", A), r.IngressAction),
			entities.NewUnsigned8InfoElement(ie("egressNetworkPolicyRuleAction", A), r.EgressAction))
	}
	for i, name := range Stats {
		ent := uint32(0)
		if i >= 4 {
			ent = registry.IANAReversedEnterpriseID
		}
		els = append(els, entities.NewUnsigned64InfoElement(ie(name, ent), r.Stat[i]))
	}
	if r.OmitStart {
		var kept []entities.InfoElementWithValue
		for _, e := range els {
			if e.GetInfoElement().Name != "flowStartSeconds" {
				kept = append(kept, e)
			}
		}
		els = kept
	}
	if r.AltOrder {
		pos := map[string]int{}
		for i, e := range els {
			pos[e.GetInfoElement().Name] = i
		}
		swap := func(a, b string) { els[pos[a]], els[pos[b]] = els[pos[b]], els[pos[a]] }
		swap("sourcePodName", "destinationPodName")
		swap("sourcePodNamespace", "destinationNodeName")
		swap("destinationClusterIPv4", "tcpState")
		swap("destinationServicePort", "flowEndReason")
		swap("ingressNetworkPolicyRulePriority", "flowType")
	}
	return els
}

// U64 reads an unsigned64 field of an aggregated record.
func U64(rec entities.Record, name string) uint64 {
	e, _, ok := rec.GetInfoElementWithValue(name)
	if !ok {
		panic("agg.U64: missing " + name)
	}
	return e.GetUnsigned64Value()
}

// U32 reads an unsigned32 / dateTimeSeconds field.
func U32(rec entities.Record, name string) uint32 {
	e, _, ok := rec.GetInfoElementWithValue(name)
	if !ok {
		panic("agg.U32: missing " + name)
	}
	return e.GetUnsigned32Value()
}

func SetU64(rec entities.Record, name string, v uint64) {
	e, _, ok := rec.GetInfoElementWithValue(name)
	if !ok {
		panic("agg.SetU64: missing " + name)
	}
	e.SetUnsigned64Value(v)
}

func SetU32(rec entities.Record, name string, v uint32) {
	e, _, ok := rec.GetInfoElementWithValue(name)
	if !ok {
		panic("agg.SetU32: missing " + name)
	}
	e.SetUnsigned32Value(v)
}
