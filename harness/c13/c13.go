// Package c13: the aggregation process is thread-safe (property C13) -
// decided here as the SUFFICIENT CONDITION the code relies on: every public
// operation touches shared state only inside one critical section of the
// process mutex (lock discipline over all feasible paths of each operation).
// Schedules are not enumerated; with mutual exclusion trusted, atomic
// operations give linearizability and reduce "no lost delta, no double
// export" to the sequential properties C05/C06.
package c13

import (
	"errors"
	"sync"

	"github.com/vmware/go-ipfix/pkg/intermediate"
	"github.com/vmware/go-ipfix/pkg/registry"

	"verifh/agg"
	"verifh/common"
	"verifh/sx"
)

func Setup() { common.Setup() }

func rec(k agg.Key, who int) agg.Rec {
	r := agg.Rec{Key: k, TCPState: "ESTABLISHED", EndReason: registry.ActiveTimeoutReason}
	switch who {
	case 0:
		r.FlowType = registry.FlowTypeIntraNode
		r.SrcPod, r.DstPod = "pod1", "pod2"
	case 1:
		r.FlowType = registry.FlowTypeInterNode
		r.SrcPod = "pod1"
	case 2:
		r.FlowType = registry.FlowTypeInterNode
		r.DstPod = "pod2"
	}
	for i := range r.Stat {
		r.Stat[i] = sx.U64("stat")
	}
	r.Start = sx.U32("start")
	r.End = sx.U32("end")
	return r
}

var errCb = errors.New("callback failed")

// Check_Operations: each public entry point from bounded arbitrary states,
// with symbolic records and time and failing/succeeding callbacks, so that
// every feasible path - error paths included - is walked under the monitor.
func Check_Operations() {
	a := agg.New(true)
	op := sx.Choose("operation", 8)
	names := []string{"AggregateMsgByFlowKey", "ForAllExpiredFlowRecordsDo", "ForAllRecordsDo", "GetRecords", "GetNumFlows", "GetExpiryFromExpirePriorityQueue", "GetRecords-key", "AggregateMsgByFlowKey-2records"}
	n := sx.Range("flows", 0, 1+sx.Tier())
	for i := 0; i < n; i++ {
		r := rec(agg.Keys[i], sx.Choose("firstReporter", 3))
		sx.Assume(r.End > r.Start)
		sx.Assert(a.AggregateMsgByFlowKey(agg.Message(r)) == nil, "setup")
	}
	fail := false
	if op == 1 || op == 2 {
		fail = sx.Choose("callbackFails", 2) == 1
	}
	if op == 1 && sx.Choose("deadlinesPassed", 2) == 1 {
		a.VerifShiftDeadlines(-(agg.InactiveTimeout + agg.Tick))
	}
	// callbacks do what the API documents for them: besides reading the record
	// they may reset its statistics and mark its correlated / external fields
	modifies := false
	if op == 1 || op == 2 {
		modifies = sx.Choose("callbackModifiesRecord", 2) == 1
	}
	cb := func(k intermediate.FlowKey, r *intermediate.AggregationFlowRecord) error {
		if fail {
			return errCb
		}
		if modifies {
			a.ResetStatAndThroughputElementsInRecord(r.Record)
			a.SetCorrelatedFieldsFilled(r, true)
			a.SetExternalFieldsFilled(r, true)
		}
		return nil
	}
	var r1, r2 agg.Rec
	if op == 0 || op == 7 {
		msgKey := sx.Choose("recordKey", 2)
		r1 = rec(agg.Keys[msgKey], sx.Choose("reporter", 3))
		if op == 0 && msgKey >= n && sx.Choose("recordLacksStartTime", 2) == 1 {
			// the first record of a new flow lacks flowStartSeconds: its aggregation is
			// refused with an error, and the error path is walked under the monitor too
			// (on an existing flow such a record makes the library dereference a nil
			// element - a robustness gap outside the listed properties, noted in DESIGN.md)
			r1.OmitStart = true
		}
		if op == 7 {
			r2 = rec(agg.Keys[(msgKey+1)%3], 0)
		}
	}
	sx.MonitorBegin(names[op], true, a)
	switch op {
	case 0:
		a.AggregateMsgByFlowKey(agg.Message(r1))
	case 1:
		a.ForAllExpiredFlowRecordsDo(cb)
	case 2:
		a.ForAllRecordsDo(cb)
	case 3:
		a.GetRecords(nil)
	case 4:
		a.GetNumFlows()
	case 5:
		a.GetExpiryFromExpirePriorityQueue()
	case 6:
		fk := agg.Keys[0].FlowKey()
		a.GetRecords(&fk)
	case 7:
		a.AggregateMsgByFlowKey(agg.Message(r1, r2))
	}
	sx.MonitorEnd()
	sx.Reach("operation-done")
}

type outcome struct {
	flows    int64
	heapLen  int
	ready    bool
	filled   bool
	srcDelta uint64
	dstDelta uint64
	srcTotal uint64
	dstTotal uint64
	exported int
	q1, q2   int64 // what a query operation returned
}

func observe(a *intermediate.AggregationProcess, k agg.Key, exported int) outcome {
	o := outcome{flows: a.GetNumFlows(), exported: exported}
	items, _ := a.VerifSnapshot()
	o.heapLen = len(items)
	if fr, ok := a.VerifFlowRecord(k.FlowKey()); ok {
		o.ready = fr.ReadyToSend
		o.filled = a.AreCorrelatedFieldsFilled(*fr)
		o.srcDelta = agg.U64(fr.Record, "packetDeltaCountFromSourceNode")
		o.dstDelta = agg.U64(fr.Record, "packetDeltaCountFromDestinationNode")
		o.srcTotal = agg.U64(fr.Record, "packetTotalCountFromSourceNode")
		o.dstTotal = agg.U64(fr.Record, "packetTotalCountFromDestinationNode")
	}
	return o
}

func sameOutcome(x, y outcome) bool {
	return sx.And(x.flows == y.flows, x.heapLen == y.heapLen, x.ready == y.ready, x.filled == y.filled, x.exported == y.exported, x.q1 == y.q1, x.q2 == y.q2,
		x.srcDelta == y.srcDelta, x.dstDelta == y.dstDelta, x.srcTotal == y.srcTotal, x.dstTotal == y.dstTotal)
}

// Check_Linearizable: two operations run in two goroutines under EVERY
// interleaving of their synchronisation points (mutex lock/unlock); the final
// state and the exports must equal those of one of the two sequential orders.
func Check_Linearizable() {
	k := agg.Keys[0]
	scenario := sx.Choose("scenario", 6)
	mk := func(who int, tag string) agg.Rec {
		r := agg.Rec{Key: k, TCPState: "ESTABLISHED", EndReason: registry.ActiveTimeoutReason, FlowType: registry.FlowTypeInterNode, Start: 1}
		if who == 1 {
			r.SrcPod = "pod1"
		} else {
			r.DstPod = "pod2"
		}
		r.End = 5 + uint32(who)
		r.Stat[0] = sx.U64(tag + "-packetTotal")
		r.Stat[1] = sx.U64(tag + "-packetDelta")
		return r
	}
	r1, r2 := mk(1, "src"), mk(2, "dst")
	preexisting := sx.Choose("flowExistsBefore", 2) == 1
	r0 := mk(1, "first")
	r0.End = 2
	run := func(order int) outcome {
		a := agg.New(true)
		exported := 0
		cb := func(fk intermediate.FlowKey, r *intermediate.AggregationFlowRecord) error { exported++; return nil }
		if preexisting {
			a.AggregateMsgByFlowKey(agg.Message(r0))
		}
		if scenario == 2 {
			a.VerifShiftDeadlines(-(agg.InactiveTimeout + agg.Tick))
		}
		op1 := func() { a.AggregateMsgByFlowKey(agg.Message(r1)) }
		op2 := func() { a.AggregateMsgByFlowKey(agg.Message(r2)) }
		var q1, q2 int64
		switch scenario {
		case 1:
			op2 = func() { q1 = a.GetNumFlows() }
		case 2:
			op2 = func() { a.ForAllExpiredFlowRecordsDo(cb) }
		case 3:
			// the advertised next expiry, in units of 2^30 ns on the standing clock
			op2 = func() { q1 = int64(a.GetExpiryFromExpirePriorityQueue() >> 30) }
		case 4:
			op2 = func() { q2 = int64(len(a.GetRecords(nil))) }
		case 5:
			// two expiry scans over a ready, due flow; the callback fails the first
			// time it is invoked (whichever scan that is) and succeeds afterwards:
			// in every sequential order exactly one export succeeds
			calls := 0
			failFirst := func(fk intermediate.FlowKey, r *intermediate.AggregationFlowRecord) error {
				calls++
				if calls == 1 {
					return errCb
				}
				exported++
				return nil
			}
			a.AggregateMsgByFlowKey(agg.Message(r1))
			a.AggregateMsgByFlowKey(agg.Message(r2))
			a.VerifShiftDeadlines(-(agg.InactiveTimeout + agg.Tick))
			op1 = func() { a.ForAllExpiredFlowRecordsDo(failFirst) }
			op2 = func() { a.ForAllExpiredFlowRecordsDo(failFirst) }
		}
		switch order {
		case 0:
			op1()
			op2()
		case 1:
			op2()
			op1()
		default:
			var wg sync.WaitGroup
			wg.Add(2)
			go func() { defer wg.Done(); op1() }()
			go func() { defer wg.Done(); op2() }()
			wg.Wait()
		}
		o := observe(a, k, exported)
		o.q1, o.q2 = q1, q2
		return o
	}
	s12, s21 := run(0), run(1)
	c := run(2)
	sx.Assert(sx.Or(sameOutcome(c, s12), sameOutcome(c, s21)), "concurrent-result-differs-from-every-sequential-order")
	sx.Assert(c.flows == int64(c.heapLen), "held-flows-and-scheduled-entries-differ-after-concurrent-operations")
	sx.Reach("compared")
}
