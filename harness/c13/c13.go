// Package c13: the aggregation process is thread-safe (property C13) -
// decided here as the SUFFICIENT CONDITION the code relies on: every public
// operation touches shared state only inside one critical section of the
// process mutex (lock discipline over all feasible paths of each operation).
// Schedules are not enumerated; with mutual exclusion trusted, atomic
// operations give linearizability and reduce "no lost delta, no double
// export" to the sequential properties C05/C06.
package c13

import (
	"errors"

	"github.com/vmware/go-ipfix/pkg/intermediate"
	"github.com/vmware/go-ipfix/pkg/registry"

	"verifh/agg"
	"verifh/common"
	"verifh/sx"
)

func Setup() { common.Setup() }

func rec(k agg.Key, who int) agg.Rec {
	r := agg.Rec{Key: k, TCPState: "ESTABLISHED", EndReason: registry.ActiveTimeoutReason}
	switch who {
	case 0:
		r.FlowType = registry.FlowTypeIntraNode
		r.SrcPod, r.DstPod = "pod1", "pod2"
	case 1:
		r.FlowType = registry.FlowTypeInterNode
		r.SrcPod = "pod1"
	case 2:
		r.FlowType = registry.FlowTypeInterNode
		r.DstPod = "pod2"
	}
	for i := range r.Stat {
		r.Stat[i] = sx.U64("stat")
	}
	r.Start = sx.U32("start")
	r.End = sx.U32("end")
	return r
}

var errCb = errors.New("callback failed")

// Check_Operations: each public entry point from bounded arbitrary states,
// with symbolic records and time and failing/succeeding callbacks, so that
// every feasible path - error paths included - is walked under the monitor.
func Check_Operations() {
	a := agg.New(true)
	op := sx.Choose("operation", 8)
	names := []string{"AggregateMsgByFlowKey", "ForAllExpiredFlowRecordsDo", "ForAllRecordsDo", "GetRecords", "GetNumFlows", "GetExpiryFromExpirePriorityQueue", "GetRecords-key", "AggregateMsgByFlowKey-2records"}
	n := sx.Range("flows", 0, 1+sx.Tier())
	for i := 0; i < n; i++ {
		r := rec(agg.Keys[i], sx.Choose("firstReporter", 3))
		sx.Assume(r.End > r.Start)
		sx.Assert(a.AggregateMsgByFlowKey(agg.Message(r)) == nil, "setup")
	}
	fail := false
	if op == 1 || op == 2 {
		fail = sx.Choose("callbackFails", 2) == 1
	}
	if op == 1 && sx.Choose("deadlinesPassed", 2) == 1 {
		a.VerifShiftDeadlines(-(agg.InactiveTimeout + agg.Tick))
	}
	cb := func(k intermediate.FlowKey, r *intermediate.AggregationFlowRecord) error {
		if fail {
			return errCb
		}
		return nil
	}
	var r1, r2 agg.Rec
	if op == 0 || op == 7 {
		msgKey := sx.Choose("recordKey", 2)
		r1 = rec(agg.Keys[msgKey], sx.Choose("reporter", 3))
		if op == 7 {
			r2 = rec(agg.Keys[(msgKey+1)%3], 0)
		}
	}
	sx.MonitorBegin(names[op], true, a)
	switch op {
	case 0:
		a.AggregateMsgByFlowKey(agg.Message(r1))
	case 1:
		a.ForAllExpiredFlowRecordsDo(cb)
	case 2:
		a.ForAllRecordsDo(cb)
	case 3:
		a.GetRecords(nil)
	case 4:
		a.GetNumFlows()
	case 5:
		a.GetExpiryFromExpirePriorityQueue()
	case 6:
		fk := agg.Keys[0].FlowKey()
		a.GetRecords(&fk)
	case 7:
		a.AggregateMsgByFlowKey(agg.Message(r1, r2))
	}
	sx.MonitorEnd()
	sx.Reach("operation-done")
}
