// Package c01: end-to-end fidelity - what an exporter is given is what a
// collector delivers (property C01; codec composition, transports assumed
// byte-faithful).
package c01

import (
	"github.com/vmware/go-ipfix/pkg/collector"
	"github.com/vmware/go-ipfix/pkg/entities"
	"github.com/vmware/go-ipfix/pkg/exporter"

	"verifh/common"
	"verifh/runner"
	"verifh/sx"
)

func Setup() { common.Setup() }

func checkTemplate(msg *entities.Message, kinds []common.Kind, tplID uint16) {
	set := msg.GetSet()
	sx.Assert(set.GetSetType() == entities.Template, "template-set-type")
	recs := set.GetRecords()
	sx.Assert(len(recs) == 1, "template-one-record")
	sx.Assert(recs[0].GetTemplateID() == tplID, "template-id")
	el := recs[0].GetOrderedElementList()
	sx.Assert(len(el) == len(kinds), "template-field-count")
	for i, k := range kinds {
		want := common.IE(k)
		got := el[i].GetInfoElement()
		sx.Assert(got.ElementId == want.ElementId && got.EnterpriseId == want.EnterpriseId && got.DataType == want.DataType && got.Len == want.Len && got.Name == want.Name, "template-field")
	}
}

func checkData(msg *entities.Message, recsIn [][]common.Val, tplID uint16) {
	set := msg.GetSet()
	sx.Assert(set.GetSetType() == entities.Data, "data-set-type")
	recs := set.GetRecords()
	sx.Assert(len(recs) == len(recsIn), "record-count")
	for r, in := range recsIn {
		sx.Assert(recs[r].GetTemplateID() == tplID, "record-template-id")
		el := recs[r].GetOrderedElementList()
		sx.Assert(len(el) == len(in), "field-count")
		all := true
		for i, v := range in {
			want := common.IE(v.K)
			got := el[i].GetInfoElement()
			sx.Assert(got.ElementId == want.ElementId && got.EnterpriseId == want.EnterpriseId, "field-element")
			all = sx.And(all, common.Same(v, el[i]))
		}
		sx.Assert(all, "field-values-bit-identical")
	}
}

// Check_EndToEnd: template + data handed to a real exporting process, the
// bytes it writes presented to a real collecting process as datagrams.
func Check_EndToEnd() {
	maxFields, maxRecs := 2, 2
	if sx.Tier() > 0 {
		maxFields, maxRecs = 3, 3
	}
	maxFields = sx.Param("maxFields", maxFields)
	kinds := common.DrawKindsTiered(maxFields)
	tplID := sx.U16("tplID")
	sx.Assume(tplID >= 256)
	domain := sx.U32("domain")
	addrs := []struct{ addr, host string }{{"1.2.3.4:5", "1.2.3.4"}, {"[::1]:5", "::1"}}
	a := addrs[sx.Choose("exporterAddress", 2)]

	conn := &common.FakeConn{}
	ep := exporter.VerifNewExportingProcess(conn, domain)
	cp, err := collector.VerifNewCollectingProcess(collector.CollectorInput{Protocol: "tcp", Address: "x"}, nil, 8)
	sx.Assert(err == nil, "collector-init")

	_, err = ep.SendSet(common.TemplateSet(tplID, kinds))
	sx.Assert(err == nil, "template-send")
	if len(kinds) == 3 {
		maxRecs = 2
	}
	nrec := sx.Range("nrec", 1, maxRecs)
	recs := common.DrawRecords(kinds, nrec)
	_, err = ep.SendSet(common.DataSet(tplID, recs))
	sx.Assert(err == nil, "data-send")
	sx.Assert(len(conn.Writes) == 2, "two-messages")

	mt, err := cp.VerifDecodePacket(conn.Writes[0], a.addr)
	sx.Assert(err == nil, "template-delivered")
	sx.Assert(mt.GetObsDomainID() == domain, "template-domain")
	sx.Assert(mt.GetExportAddress() == a.host, "exporter-address")
	checkTemplate(mt, kinds, tplID)
	md, err := cp.VerifDecodePacket(conn.Writes[1], a.addr)
	sx.Assert(err == nil, "data-delivered")
	sx.Assert(md.GetObsDomainID() == domain, "data-domain")
	checkData(md, recs, tplID)
	sx.Reach("delivered")
	if !sx.Symbolic() {
		sx.Observe("n", len(conn.Writes[0]), len(conn.Writes[1]))
	}
}

// Check_MaxMessage: a single variable-length field that makes the message
// exactly 65535 bytes (the largest that fits), and the 254/255 boundary next
// to other fields.
func Check_MaxMessage() {
	k := []common.Kind{common.KString, common.KOctetVar}[sx.Choose("kind", 2)]
	L := []int{65512, 65511, 254, 255, 256, 65000, 4073, 4074, 5000}[sx.Choose("len", 9)]
	domain := sx.U32("domain")
	conn := &common.FakeConn{}
	ep := exporter.VerifNewExportingProcess(conn, domain)
	cp, err := collector.VerifNewCollectingProcess(collector.CollectorInput{Protocol: "tcp", Address: "x"}, nil, 8)
	sx.Assert(err == nil, "collector-init")
	const tplID = 1000
	kinds := []common.Kind{k}
	_, err = ep.SendSet(common.TemplateSet(tplID, kinds))
	sx.Assert(err == nil, "template-send")
	recs := [][]common.Val{{common.Draw(k, "value", L)}}
	n, err := ep.SendSet(common.DataSet(tplID, recs))
	sx.Assert(err == nil, "data-send")
	sx.Assert(n == 16+4+3+L || (L < 255 && n == 16+4+1+L), "message-size")
	var md *entities.Message
	if sx.Choose("transport", 2) == 0 {
		_, err = cp.VerifDecodePacket(conn.Writes[0], "1.2.3.4:5")
		sx.Assert(err == nil, "template-delivered")
		md, err = cp.VerifDecodePacket(conn.Writes[1], "1.2.3.4:5")
		sx.Assert(err == nil, "data-delivered")
	} else {
		// the same bytes as one TCP stream through the real connection handler
		// (framing by the header's length field, bufio reader), followed by a
		// second copy of the template message to see that framing survives
		stream := append(append(append([]byte{}, conn.Writes[0]...), conn.Writes[1]...), conn.Writes[0]...)
		in := &common.FakeConn{ReadData: stream, Remote: "1.2.3.4:5"}
		cp.VerifHandleTCPClient(in)
		sx.Assert(len(cp.GetMsgChan()) == 3, "tcp-stream-not-delivered-message-by-message")
		<-cp.GetMsgChan()
		md = <-cp.GetMsgChan()
		last := <-cp.GetMsgChan()
		sx.Assert(last.GetSet().GetSetType() == entities.Template, "tcp-framing-lost-after-large-message")
		sx.Reach("over-tcp")
	}
	checkData(md, recs, tplID)
	if L == 65512 {
		sx.Reach("max-size")
	}
	sx.Reach("delivered")
}

var Table = map[string]runner.Entry{
	"Check_EndToEnd":   {Setup: Setup, Fn: Check_EndToEnd},
	"Check_MaxMessage": {Setup: Setup, Fn: Check_MaxMessage},
}
