// Package c17: unknown information elements - strict rejects, keep preserves,
// drop omits exactly (property C17).
package c17

import (
	"github.com/vmware/go-ipfix/pkg/collector"
	"github.com/vmware/go-ipfix/pkg/entities"

	"verifh/common"
	"verifh/ref"
	"verifh/runner"
	"verifh/sx"
)

func Setup() { common.Setup() }

var knownPool = []common.Kind{common.KU16, common.KU32, common.KString, common.KIPv4, common.KU64, common.KAntreaS}

type unk struct {
	id  uint16
	ent uint32
}

var unknownPool = []unk{{999, 0}, {5, 9999}, {9999, 56506}}

type pos struct {
	known  bool
	kind   common.Kind
	u      unk
	length uint16 // unknown: wire length (65535 variable)
}

type val struct {
	v   common.Val // known
	raw []byte     // unknown payload
	enc []byte
}

const tplID = 300
const domain = 9

func newCP(mode collector.DecodingMode) *collector.CollectingProcess {
	cp, err := collector.VerifNewCollectingProcess(collector.CollectorInput{Protocol: "tcp", Address: "x", DecodingMode: mode}, nil, 8)
	sx.Assert(err == nil, "init")
	return cp
}

func templatePkt(ps []pos) []byte {
	pkt := ref.Header(0, 0, 0, domain, 2, 0)
	pkt = ref.U16(pkt, tplID)
	pkt = ref.U16(pkt, uint16(len(ps)))
	for _, p := range ps {
		if p.known {
			ie := common.IE(p.kind)
			pkt = ref.FieldSpec(pkt, ie.ElementId, ie.Len, ie.EnterpriseId)
		} else {
			pkt = ref.FieldSpec(pkt, p.u.id, p.length, p.u.ent)
		}
	}
	return pkt
}

func dataPkt(recs [][]val, only func(i int) bool) []byte {
	pkt := ref.Header(0, 0, 0, domain, tplID, 0)
	for _, r := range recs {
		for i, v := range r {
			if only == nil || only(i) {
				pkt = append(pkt, v.enc...)
			}
		}
	}
	return pkt
}

// Check_Modes: the same wire bytes (template interleaving known and unknown
// elements, data records with symbolic values) under the three decoding modes.
func Check_Modes() {
	maxPos, maxRec := 2, 1
	if sx.Tier() > 0 {
		maxPos, maxRec = 3, 2
	}
	n := sx.Range("positions", 1, maxPos)
	ps := make([]pos, n)
	anyUnknown := false
	for i := range ps {
		if sx.Choose("known", 2) == 1 {
			kp := knownPool
			if n == 3 {
				kp = knownPool[:3]
			}
			ps[i] = pos{known: true, kind: kp[sx.Choose("kind", len(kp))]}
		} else {
			anyUnknown = true
			ls := []uint16{1, 2, 5, 65535}
			if n == 3 {
				ls = []uint16{2, 65535} // three positions: fewer length variants
			}
			ps[i] = pos{u: unknownPool[sx.Choose("unknownID", len(unknownPool))], length: ls[sx.Choose("unknownLen", len(ls))]}
		}
	}
	if n == 3 {
		maxRec = 1 // three positions: one record (two records x three positions: 17 min in all)
	}
	nrec := sx.Range("records", 1, maxRec)
	recs := make([][]val, nrec)
	for r := range recs {
		recs[r] = make([]val, n)
		for i, p := range ps {
			if p.known {
				v := common.Draw(p.kind, "value", common.PickLen(p.kind, "len"))
				recs[r][i] = val{v: v, enc: v.Enc}
				continue
			}
			if p.length == 65535 {
				ls := []int{0, 3, 255}
				raw := sx.Bytes("unknownValue", ls[sx.Choose("unknownVarLen", len(ls))])
				recs[r][i] = val{raw: raw, enc: ref.Var(nil, raw)}
			} else {
				raw := sx.Bytes("unknownValue", int(p.length))
				recs[r][i] = val{raw: raw, enc: raw}
			}
		}
	}
	tpl := templatePkt(ps)
	data := dataPkt(recs, nil)

	// strict
	cpS := newCP(collector.DecodingModeStrict)
	nOlder := 2
	if anyUnknown {
		nOlder = 3
	}
	olderKind := sx.Choose("olderTemplate", nOlder)
	older := olderKind == 1
	olderTpl := templatePkt([]pos{{known: true, kind: common.KU8}})
	// older template of kind 2: the same specifiers, except that every unknown
	// element was announced with another length (a re-definition must win)
	var olderSame []byte
	if olderKind == 2 {
		ps2 := append([]pos(nil), ps...)
		for i := range ps2 {
			if !ps2[i].known {
				if ps2[i].length == 65535 {
					ps2[i].length = 2
				} else {
					ps2[i].length += 4
				}
			}
		}
		olderSame = templatePkt(ps2)
		sx.Reach("older-template-same-ids-other-lengths")
	}
	if older {
		// an older, valid (known-only) template for the same id must not survive the
		// rejected one, nor influence how its replacement is handled in keep / drop mode
		_, errO := cpS.VerifDecodePacket(olderTpl, "1.2.3.4:5")
		sx.Assert(errO == nil, "older-template")
		sx.Reach("older-template")
	}
	_, errT := cpS.VerifDecodePacket(tpl, "1.2.3.4:5")
	_, errD := cpS.VerifDecodePacket(data, "1.2.3.4:5")
	if anyUnknown {
		sx.Assert(errT != nil, "strict-accepts-template-with-unknown-element")
		sx.Assert(errD != nil, "strict-decodes-data-after-rejected-template")
		sx.Reach("strict-rejects")
	} else {
		sx.Assert(errT == nil && errD == nil, "strict-rejects-known-template")
		sx.Reach("all-known")
	}

	// keep
	cpK := newCP(collector.DecodingModeLenientKeepUnknown)
	if older {
		_, errO := cpK.VerifDecodePacket(olderTpl, "1.2.3.4:5")
		sx.Assert(errO == nil, "older-template-keep")
	}
	if olderSame != nil {
		_, errO := cpK.VerifDecodePacket(olderSame, "1.2.3.4:5")
		sx.Assert(errO == nil, "older-template-keep")
	}
	mT, errT := cpK.VerifDecodePacket(tpl, "1.2.3.4:5")
	sx.Assert(errT == nil, "keep-rejects-template")
	tel := mT.GetSet().GetRecords()[0].GetOrderedElementList()
	sx.Assert(len(tel) == n, "keep-template-field-count")
	mD, errD := cpK.VerifDecodePacket(data, "1.2.3.4:5")
	sx.Assert(errD == nil, "keep-rejects-data")
	got := mD.GetSet().GetRecords()
	sx.Assert(len(got) == nrec, "keep-record-count")
	for r := range recs {
		el := got[r].GetOrderedElementList()
		sx.Assert(len(el) == n, "keep-field-count")
		for i, p := range ps {
			if p.known {
				sx.Assert(common.Same(recs[r][i].v, el[i]), "keep-known-value")
				continue
			}
			ie := el[i].GetInfoElement()
			sx.Assert(ie.ElementId == p.u.id && ie.EnterpriseId == p.u.ent, "keep-unknown-id")
			sx.Assert(el[i].GetDataType() == entities.OctetArray, "keep-unknown-type")
			sx.Assert(sx.EqBytes(el[i].GetOctetArrayValue(), recs[r][i].raw), "keep-unknown-bytes")
		}
	}
	sx.Reach("keep-checked")

	// drop
	cpD := newCP(collector.DecodingModeLenientDropUnknown)
	if older {
		_, errO := cpD.VerifDecodePacket(olderTpl, "1.2.3.4:5")
		sx.Assert(errO == nil, "older-template-drop")
	}
	if olderSame != nil {
		_, errO := cpD.VerifDecodePacket(olderSame, "1.2.3.4:5")
		sx.Assert(errO == nil, "older-template-drop")
	}
	_, errT = cpD.VerifDecodePacket(tpl, "1.2.3.4:5")
	sx.Assert(errT == nil, "drop-rejects-template")
	mD, errD = cpD.VerifDecodePacket(data, "1.2.3.4:5")
	sx.Assert(errD == nil, "drop-rejects-data")
	got = mD.GetSet().GetRecords()
	sx.Assert(len(got) == nrec, "drop-record-count")
	nKnown := 0
	for _, p := range ps {
		if p.known {
			nKnown++
		}
	}
	for r := range recs {
		el := got[r].GetOrderedElementList()
		sx.Assert(len(el) == nKnown, "drop-omits-exactly-the-unknown-fields")
		j := 0
		for i, p := range ps {
			if !p.known {
				continue
			}
			sx.Assert(common.Same(recs[r][i].v, el[j]), "drop-known-value")
			j++
		}
	}
	sx.Reach("drop-checked")

	// the same known fields without the unknown ones: same values
	if anyUnknown && nKnown > 0 {
		var kp []pos
		for _, p := range ps {
			if p.known {
				kp = append(kp, p)
			}
		}
		cpR := newCP(collector.DecodingModeStrict)
		_, errT = cpR.VerifDecodePacket(templatePkt(kp), "1.2.3.4:5")
		sx.Assert(errT == nil, "reduced-template")
		mR, errR := cpR.VerifDecodePacket(dataPkt(recs, func(i int) bool { return ps[i].known }), "1.2.3.4:5")
		sx.Assert(errR == nil, "reduced-data")
		rr := mR.GetSet().GetRecords()
		sx.Assert(len(rr) == nrec, "reduced-record-count")
		for r := range recs {
			el := rr[r].GetOrderedElementList()
			j := 0
			for i, p := range ps {
				if !p.known {
					continue
				}
				sx.Assert(common.Same(recs[r][i].v, el[j]), "known-value-independent-of-unknown-fields")
				j++
			}
		}
		sx.Reach("reduced-checked")
	}
}

// Check_KeepOverTCP: keep mode through the real TCP connection handler: two
// data messages with unknown fields on one connection; after both were
// delivered the first message still holds exactly the bytes it was sent with.
func Check_KeepOverTCP() {
	mode := []collector.DecodingMode{collector.DecodingModeLenientKeepUnknown, collector.DecodingModeLenientDropUnknown}[sx.Choose("mode", 2)]
	ps := []pos{{known: true, kind: common.KU16}, {u: unknownPool[sx.Choose("unknownID", len(unknownPool))], length: []uint16{4, 65535}[sx.Choose("unknownLen", 2)]}}
	mk := func(tag string) []val {
		v := common.Draw(common.KU16, tag, 0)
		raw := sx.Bytes(tag+"-unknown", 4)
		enc := raw
		if ps[1].length == 65535 {
			enc = ref.Var(nil, raw)
		}
		return []val{{v: v, enc: v.Enc}, {raw: raw, enc: enc}}
	}
	r1, r2 := mk("first"), mk("second")
	frame := func(b []byte) []byte {
		b[2], b[3] = byte(len(b)>>8), byte(len(b))
		return b
	}
	stream := frame(templatePkt(ps))
	stream = append(stream, frame(dataPkt([][]val{r1}, nil))...)
	stream = append(stream, frame(dataPkt([][]val{r2}, nil))...)
	cp, err := collector.VerifNewCollectingProcess(collector.CollectorInput{Protocol: "tcp", Address: "x", DecodingMode: mode}, nil, 8)
	sx.Assert(err == nil, "init")
	cp.VerifHandleTCPClient(&common.FakeConn{ReadData: stream})
	var msgs []*entities.Message
	for len(msgs) < 3 {
		select {
		case m := <-cp.GetMsgChan():
			msgs = append(msgs, m)
		default:
			sx.Assert(false, "three-messages-delivered")
		}
	}
	for i, r := range [][]val{r1, r2} {
		el := msgs[1+i].GetSet().GetRecords()[0].GetOrderedElementList()
		sx.Assert(common.Same(r[0].v, el[0]), "known-value")
		if mode == collector.DecodingModeLenientKeepUnknown {
			sx.Assert(len(el) == 2, "keep-field-count")
			sx.Assert(sx.EqBytes(el[1].GetOctetArrayValue(), r[1].raw), "keep-unknown-bytes-changed-after-delivery")
		} else {
			sx.Assert(len(el) == 1, "drop-field-count")
		}
	}
	sx.Reach("tcp-checked")
}

var Table = map[string]runner.Entry{
	"Check_KeepOverTCP": {Setup: Setup, Fn: Check_KeepOverTCP},
	"Check_Modes":       {Setup: Setup, Fn: Check_Modes},
}
