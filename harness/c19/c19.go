// Package c19: Kafka publication - one framed message per data record, in
// order (property C19; protobuf runtime stubbed as uninterpreted).
package c19

import (
	"net"

	"github.com/IBM/sarama"

	"github.com/vmware/go-ipfix/pkg/entities"
	"github.com/vmware/go-ipfix/pkg/kafka/consumer"
	"github.com/vmware/go-ipfix/pkg/kafka/producer"
	convtest "github.com/vmware/go-ipfix/pkg/kafka/producer/convertor/test"
	"github.com/vmware/go-ipfix/pkg/kafka/producer/protobuf"
	"github.com/vmware/go-ipfix/pkg/registry"

	"verifh/common"
	"verifh/ref"
	"verifh/runner"
	"verifh/sx"
)

func Setup() { common.Setup() }

// fakeProducer implements sarama.AsyncProducer and records what is published.
type fakeProducer struct {
	in chan *sarama.ProducerMessage
}

func (p *fakeProducer) AsyncClose()                               {}
func (p *fakeProducer) Close() error                              { return nil }
func (p *fakeProducer) Input() chan<- *sarama.ProducerMessage     { return p.in }
func (p *fakeProducer) Successes() <-chan *sarama.ProducerMessage { return nil }
func (p *fakeProducer) Errors() <-chan *sarama.ProducerError      { return nil }
func (p *fakeProducer) IsTransactional() bool                     { return false }
func (p *fakeProducer) TxnStatus() sarama.ProducerTxnStatusFlag   { return 0 }
func (p *fakeProducer) BeginTxn() error                           { return nil }
func (p *fakeProducer) CommitTxn() error                          { return nil }
func (p *fakeProducer) AbortTxn() error                           { return nil }
func (p *fakeProducer) AddOffsetsToTxn(map[string][]*sarama.PartitionOffsetMetadata, string) error {
	return nil
}
func (p *fakeProducer) AddMessageToTxn(*sarama.ConsumerMessage, string, *string) error { return nil }

type recVals struct {
	v6                bool
	v4in16            bool // the IPv4 addresses are held in net.IP's 16-byte form
	altOrder          bool // the record lists its elements in another order (another template layout under the same id)
	sport, dport      uint16
	proto             uint8
	start, end        uint32
	pkts, bytes       uint64
	revPkts, revBytes uint64
	svcPort           uint16
	srcPod            string
}

func ie(name string, ent uint32) *entities.InfoElement {
	e, err := registry.GetInfoElement(name, ent)
	if err != nil {
		panic(name)
	}
	return e
}

func drawRec(v6 bool) recVals {
	return recVals{v6: v6, sport: sx.U16("sport"), dport: sx.U16("dport"), proto: sx.U8("proto"), start: sx.U32("start"), end: sx.U32("end"),
		pkts: sx.U64("pkts"), bytes: sx.U64("bytes"), revPkts: sx.U64("revPkts"), revBytes: sx.U64("revBytes"), svcPort: sx.U16("svcPort"),
		srcPod: sx.Str("srcPod", 5)}
}

func elements(r recVals) []entities.InfoElementWithValue {
	A := registry.AntreaEnterpriseID
	R := registry.IANAReversedEnterpriseID
	var els []entities.InfoElementWithValue
	if r.v6 {
		els = append(els, entities.NewIPAddressInfoElement(ie("sourceIPv6Address", 0), net.ParseIP("2001:db8::1")),
			entities.NewIPAddressInfoElement(ie("destinationIPv6Address", 0), net.ParseIP("2001:db8::2")))
	} else if r.v4in16 {
		els = append(els, entities.NewIPAddressInfoElement(ie("sourceIPv4Address", 0), net.ParseIP("10.0.0.1")),
			entities.NewIPAddressInfoElement(ie("destinationIPv4Address", 0), net.ParseIP("10.0.0.2")))
	} else {
		els = append(els, entities.NewIPAddressInfoElement(ie("sourceIPv4Address", 0), net.ParseIP("10.0.0.1").To4()),
			entities.NewIPAddressInfoElement(ie("destinationIPv4Address", 0), net.ParseIP("10.0.0.2").To4()))
	}
	els = append(els,
		entities.NewUnsigned16InfoElement(ie("sourceTransportPort", 0), r.sport),
		entities.NewUnsigned16InfoElement(ie("destinationTransportPort", 0), r.dport),
		entities.NewUnsigned8InfoElement(ie("protocolIdentifier", 0), r.proto),
		entities.NewDateTimeSecondsInfoElement(ie("flowStartSeconds", 0), r.start),
		entities.NewDateTimeSecondsInfoElement(ie("flowEndSeconds", 0), r.end),
		entities.NewUnsigned64InfoElement(ie("packetTotalCount", 0), r.pkts),
		entities.NewUnsigned64InfoElement(ie("octetTotalCount", 0), r.bytes),
		entities.NewUnsigned64InfoElement(ie("reversePacketTotalCount", R), r.revPkts),
		entities.NewUnsigned64InfoElement(ie("reverseOctetTotalCount", R), r.revBytes),
		entities.NewUnsigned16InfoElement(ie("destinationServicePort", A), r.svcPort),
		entities.NewStringInfoElement(ie("sourcePodName", A), r.srcPod),
	)
	if r.altOrder {
		// same elements, other positions: ports swapped, counters swapped, times swapped
		els[2], els[3] = els[3], els[2]
		els[5], els[6] = els[6], els[5]
		els[7], els[8] = els[8], els[7]
		els[9], els[10] = els[10], els[9]
	}
	return els
}

type msgIn struct {
	isTemplate           bool
	exportTime, seq, dom uint32
	addr                 string
	recs                 []recVals
}

func buildMsg(m msgIn) *entities.Message {
	set := entities.NewSet(true)
	if m.isTemplate {
		set.PrepareSet(entities.Template, 256)
		el, _ := entities.DecodeAndCreateInfoElementWithValue(ie("sourceTransportPort", 0), nil)
		set.AddRecord([]entities.InfoElementWithValue{el}, 256)
	} else {
		set.PrepareSet(entities.Data, 256)
		for _, r := range m.recs {
			set.AddRecord(elements(r), 256)
		}
	}
	msg := entities.NewMessage(true)
	msg.SetVersion(10)
	msg.SetExportTime(m.exportTime)
	msg.SetSequenceNum(m.seq)
	msg.SetObsDomainID(m.dom)
	msg.SetExportAddress(m.addr)
	msg.AddSet(set)
	return msg
}

const fnMarshal = "google.golang.org/protobuf/proto.Marshal"
const fnUnmarshal = "google.golang.org/protobuf/proto.Unmarshal"

// Check_Publish: a stream of 1..3 IPFIX messages (template or data with 0..2
// records of symbolic values, IPv4 or IPv6) through PublishIPFIXMessages with
// either shipped schema convertor.
func Check_Publish() {
	schema := sx.Choose("schema", 2)
	conv := convtest.NewFlowType1Convertor()
	if schema == 1 {
		conv = convtest.NewFlowType2Convertor()
	}
	kp, err := producer.NewKafkaProducer(producer.ProducerInput{KafkaVersion: sarama.DefaultVersion, KafkaTopic: "flows", ProtoSchemaConvertor: conv})
	sx.Assert(err == nil, "new-producer")
	fp := &fakeProducer{in: make(chan *sarama.ProducerMessage, 16)}
	kp.SetSaramaProducer(fp)

	nmsg := sx.Range("messages", 1, 2+sx.Tier())
	ch := make(chan *entities.Message, 4)
	var in []msgIn
	for i := 0; i < nmsg; i++ {
		m := msgIn{exportTime: sx.U32("exportTime"), seq: sx.U32("seq"), dom: sx.U32("domain"), addr: "10.1.1.1"}
		third := i == 2 // the third message of a thorough stream varies less (0.46 M streams otherwise)
		if !third {
			m.addr = []string{"10.1.1.1", "2001:db8::9"}[sx.Choose("exportAddr", 2)]
		}
		if sx.Choose("kind", 2) == 0 {
			m.isTemplate = true
		} else {
			maxRecs := 2
			v6 := false
			if third {
				maxRecs = 1
			}
			n := sx.Range("records", 0, maxRecs)
			if !third {
				v6 = sx.Choose("ipv6", 2) == 1
			}
			for j := 0; j < n; j++ {
				r := drawRec(v6)
				// the second message of a stream uses another element order under the
				// same template id (another exporter / a re-defined template); the second
				// record of a message holds its IPv4 addresses in the 16-byte form
				r.altOrder = i == 1
				r.v4in16 = j == 1
				m.recs = append(m.recs, r)
			}
		}
		in = append(in, m)
		ch <- buildMsg(m)
	}
	close(ch)
	kp.PublishIPFIXMessages(ch)

	// expected: one Kafka message per data record, in order
	type exp struct {
		m msgIn
		r recVals
	}
	var want []exp
	for _, m := range in {
		for _, r := range m.recs {
			want = append(want, exp{m, r})
		}
	}
	sx.Assert(len(fp.in) == len(want), "one-kafka-message-per-data-record-none-for-templates")
	if sx.Native() {
		sx.Reach("native-count-only")
		return
	}
	sx.Assert(sx.StubCount(fnMarshal) == len(want), "marshal-calls")
	cons := consumer.NewKafkaConsumer(consumer.ConsumerInput{KafkaTopic: "flows", KafkaProtoSchema: &protobuf.FlowType1{}, MsgDelimitWithLen: true})
	for i, e := range want {
		pm := <-fp.in
		sx.Assert(pm.Topic == "flows", "topic")
		payload := []byte(pm.Value.(sarama.ByteEncoder))
		// what was handed to the (uninterpreted) marshaller
		var ok bool
		switch f := sx.StubArg(fnMarshal, i, 0).(type) {
		case *protobuf.FlowType1:
			ok = sx.And(f.TimeReceived == e.m.exportTime, f.SequenceNumber == e.m.seq, f.ObsDomainID == e.m.dom, f.ExportAddress == e.m.addr,
				f.SrcPort == uint32(e.r.sport), f.DstPort == uint32(e.r.dport), f.Proto == uint32(e.r.proto),
				f.TimeFlowStartInSecs == e.r.start, f.TimeFlowEndInSecs == e.r.end,
				f.PacketsTotal == e.r.pkts, f.BytesTotal == e.r.bytes, f.ReversePacketsTotal == e.r.revPkts, f.ReverseBytesTotal == e.r.revBytes,
				f.DstServicePort == uint32(e.r.svcPort), f.SrcPodName == e.r.srcPod)
			if e.r.v6 {
				ok = sx.And(ok, f.SrcIP == "2001:db8::1", f.DstIP == "2001:db8::2")
			} else {
				ok = sx.And(ok, f.SrcIP == "10.0.0.1", f.DstIP == "10.0.0.2")
			}
			sx.Assert(schema == 0, "schema")
		case *protobuf.FlowType2:
			ok = sx.And(f.TimeReceived == e.m.exportTime, f.SequenceNumber == e.m.seq, f.ObsDomainID == e.m.dom, f.ExportAddress == e.m.addr,
				f.SrcPort == uint32(e.r.sport), f.DstPort == uint32(e.r.dport), f.Proto == uint32(e.r.proto),
				f.TimeFlowStartInSecs == e.r.start, f.TimeFlowEndInSecs == e.r.end,
				f.PacketsTotal == e.r.pkts, f.BytesTotal == e.r.bytes, f.ReversePacketsTotal == e.r.revPkts, f.ReverseBytesTotal == e.r.revBytes,
				f.DstServicePort == uint32(e.r.svcPort), f.SrcPodName == e.r.srcPod)
			if e.r.v6 {
				ok = sx.And(ok, f.SrcIP == "2001:db8::1", f.DstIP == "2001:db8::2")
			} else {
				ok = sx.And(ok, f.SrcIP == "10.0.0.1", f.DstIP == "10.0.0.2")
			}
			sx.Assert(schema == 1, "schema")
		default:
			sx.Assert(false, "unexpected-message-type-marshalled")
		}
		sx.Assert(ok, "protobuf-struct-carries-record-and-message-fields")
		// framing: 4-byte big-endian length, then exactly that many bytes
		sx.Assert(len(payload) >= 4, "payload-shorter-than-length-prefix")
		sx.Assert(int(ref.GetU32(payload, 0)) == len(payload)-4, "length-prefix-is-not-the-protobuf-length")
		// the consumer side hands exactly those bytes to Unmarshal
		before := sx.StubCount(fnUnmarshal)
		sx.Assert(cons.DecodeAndPrintMsg(&sarama.ConsumerMessage{Topic: "flows", Value: payload}) == nil, "consumer-rejects-payload")
		sx.Assert(sx.StubCount(fnUnmarshal) == before+1, "consumer-unmarshal-call")
		sx.Assert(!sx.StubArg(fnUnmarshal, before, 2).(bool), "consumer-merges-into-a-stale-message")
		got := sx.StubArg(fnUnmarshal, before, 0).([]byte)
		sx.Assert(sx.EqBytes(got, payload[4:]), "consumer-decodes-other-bytes-than-were-marshalled")
	}
	if len(want) > 1 {
		sx.Reach("several-records")
	}
	if len(want) == 0 {
		sx.Reach("nothing-published")
	}
	sx.Reach("published")
}

var Table = map[string]runner.Entry{
	"Check_Publish": {Setup: Setup, Fn: Check_Publish},
}
