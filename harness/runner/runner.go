// Package runner is the native side of gosx: it re-runs harness functions on
// recorded draws (counterexamples, or concrete vectors of the translator
// validation) against the real compiled code.
package runner

import (
	"fmt"
	"os"
	"strings"
	"time"

	"verifh/sx"
)

type Entry struct {
	Setup func()
	Fn    func()
}

// Main runs every replay file given on the command line:
//
//	<bin> [-timeout=20s] <Harness> <file>...
func Main(table map[string]Entry) {
	args := os.Args[1:]
	timeout := 20 * time.Second
	for len(args) > 0 && strings.HasPrefix(args[0], "-timeout=") {
		d, err := time.ParseDuration(strings.TrimPrefix(args[0], "-timeout="))
		if err == nil {
			timeout = d
		}
		args = args[1:]
	}
	if len(args) < 2 {
		fmt.Fprintln(os.Stderr, "usage: replay [-timeout=d] <harness> <file>...")
		os.Exit(2)
	}
	name := args[0]
	e, ok := table[name]
	if !ok {
		fmt.Fprintf(os.Stderr, "unknown harness %q\n", name)
		os.Exit(2)
	}
	for _, f := range args[1:] {
		if err := sx.Load(f); err != nil {
			fmt.Printf("REPLAY file=%s outcome=load-error:%v\n", f, err)
			continue
		}
		done := make(chan string, 1)
		go func() {
			done <- runOne(e)
		}()
		select {
		case o := <-done:
			for _, t := range sx.Trace {
				fmt.Printf("OBS file=%s %s\n", f, t)
			}
			fmt.Printf("REPLAY file=%s outcome=%s\n", f, o)
		case <-time.After(timeout):
			fmt.Printf("REPLAY file=%s outcome=hang\n", f)
			os.Stdout.Sync()
			os.Exit(0) // the stuck goroutine cannot be stopped
		}
	}
}

func runOne(e Entry) (outcome string) {
	defer func() {
		if r := recover(); r != nil {
			if s, ok := r.(sx.Stop); ok {
				outcome = s.Outcome
				return
			}
			outcome = "panic:" + strings.ReplaceAll(fmt.Sprint(r), "\n", " ")
		}
	}()
	if e.Setup != nil {
		e.Setup()
	}
	e.Fn()
	return "ok"
}
