// Package c09: the exporter never emits an invalid, oversized or silently
// altered message (property C09).
package c09

import (
	"net"

	"github.com/vmware/go-ipfix/pkg/entities"
	"github.com/vmware/go-ipfix/pkg/exporter"

	"verifh/common"
	"verifh/ref"
	"verifh/runner"
	"verifh/sx"
)

func Setup() { common.Setup() }

var kinds2 = []common.Kind{common.KU16, common.KU32}

// afterRefusal: a refused send wrote nothing, and a following valid send is a
// well-formed message (reference encoding; the sequence number is read back
// from the wire because failed attempts are outside the sequence statement).
func afterRefusal(ep *exporter.ExportingProcess, conn *common.FakeConn, writesBefore int, n int, err error, domain uint32) {
	sx.Assert(err != nil, "refusal-returns-error")
	sx.Assert(len(conn.Writes) == writesBefore, "refusal-writes-nothing")
	_ = n // the reported count of a refused send is not part of the statement
	const okID = 999
	_, err = ep.SendSet(common.TemplateSet(okID, kinds2))
	sx.Assert(err == nil, "later-template-ok")
	recs := common.DrawRecords(kinds2, 1)
	n2, err := ep.SendSet(common.DataSet(okID, recs))
	sx.Assert(err == nil, "later-data-ok")
	sx.Assert(len(conn.Writes) == writesBefore+2, "later-sends-one-message-each")
	w := conn.Writes[writesBefore+1]
	sx.Assert(n2 == len(w), "later-byte-count")
	want := common.RefMessage(ref.GetU32(w, 4), ref.GetU32(w, 8), domain, common.RefDataSet(okID, recs))
	sx.Assert(sx.EqBytes(w, want), "later-message-well-formed")
}

// Check_UnknownTemplate: data for a symbolic template id after j template
// sends with symbolic ids is transmitted only if the id was sent before.
func Check_UnknownTemplate() {
	domain := sx.U32("domain")
	conn := &common.FakeConn{}
	ep := exporter.VerifNewExportingProcess(conn, domain)
	j := sx.Range("templatesSent", 0, 2)
	ids := make([]uint16, j)
	for i := range ids {
		ids[i] = sx.U16("tplID")
		sx.Assume(ids[i] >= 256)
		_, err := ep.SendSet(common.TemplateSet(ids[i], kinds2))
		sx.Assert(err == nil, "template-ok")
	}
	dataID := sx.U16("dataID")
	sx.Assume(dataID >= 256)
	sx.Assume(dataID != 999)
	known := false
	for i := range ids {
		known = sx.Or(known, ids[i] == dataID)
	}
	before := len(conn.Writes)
	recs := common.DrawRecords(kinds2, sx.Range("nrec", 1, 2))
	n, err := ep.SendSet(common.DataSet(dataID, recs))
	if err == nil {
		sx.Assert(known, "transmitted-only-if-template-was-sent")
		sx.Assert(len(conn.Writes) == before+1, "one-write")
		sx.Reach("transmitted")
		return
	}
	sx.Assert(!known, "known-template-not-refused")
	sx.Reach("refused")
	afterRefusal(ep, conn, before, n, err, domain)
}

// Check_FieldCount: a record with f fields against a template with g fields is
// refused iff f != g; also when only one record of several is wrong.
func Check_FieldCount() {
	domain := sx.U32("domain")
	conn := &common.FakeConn{}
	ep := exporter.VerifNewExportingProcess(conn, domain)
	pool := []common.Kind{common.KU8, common.KU16, common.KU32}
	g := sx.Range("templateFields", 0, 3)
	f := sx.Range("recordFields", 0, 3)
	const tplID = 300
	_, err := ep.SendSet(common.TemplateSet(tplID, pool[:g]))
	sx.Assert(err == nil, "template-ok")
	before := len(conn.Writes)
	nrec := sx.Range("nrec", 1, 2)
	bad := sx.Choose("badRecord", nrec)
	recs := make([][]common.Val, nrec)
	for r := range recs {
		ks := pool[:g]
		if r == bad {
			ks = pool[:f]
		}
		recs[r] = make([]common.Val, len(ks))
		for i, k := range ks {
			recs[r][i] = common.Draw(k, "v", 0)
		}
	}
	n, err := ep.SendSet(common.DataSet(tplID, recs))
	if f == g {
		sx.Assert(err == nil, "matching-count-accepted")
		sx.Assert(len(conn.Writes) == before+1, "one-write")
		sx.Reach("accepted")
		return
	}
	sx.Reach("refused")
	afterRefusal(ep, conn, before, n, err, domain)
}

// Check_SizeLimit: sets sized so that the message is 65519..65540 bytes: written
// iff 16 + set length <= 65535.
func Check_SizeLimit() {
	domain := sx.U32("domain")
	conn := &common.FakeConn{}
	ep := exporter.VerifNewExportingProcess(conn, domain)
	const tplID = 300
	ks := []common.Kind{common.KString}
	_, err := ep.SendSet(common.TemplateSet(tplID, ks))
	sx.Assert(err == nil, "template-ok")
	before := len(conn.Writes)
	total := sx.Range("messageSize", 65519, 65540)
	// message = 16 header + 4 set header + 3 prefix + L
	L := total - 23
	recs := [][]common.Val{{common.Draw(common.KString, "s", L)}}
	n, err := ep.SendSet(common.DataSet(tplID, recs))
	if total <= 65535 {
		sx.Assert(err == nil, "fitting-message-accepted")
		sx.Assert(len(conn.Writes) == before+1, "one-write")
		sx.Assert(n == total, "size-as-computed")
		w := conn.Writes[before]
		want := common.RefMessage(ref.GetU32(w, 4), ref.GetU32(w, 8), domain, common.RefDataSet(tplID, recs))
		sx.Assert(sx.EqBytes(w, want), "max-size-message-well-formed")
		sx.Reach("fits")
		return
	}
	sx.Reach("oversized")
	afterRefusal(ep, conn, before, n, err, domain)
}

// symSet is a Set whose length is a symbolic integer: the limit comparison in
// the exporter is then the solver's question (> vs >=), not a sample.
type symSet struct {
	entities.Set
	length int
}

func (s *symSet) GetSetLength() int { return s.length }

// Check_SizeLimitSymbolic: the set length is symbolic in [65400, 65600].
func Check_SizeLimitSymbolic() {
	domain := sx.U32("domain")
	conn := &common.FakeConn{}
	ep := exporter.VerifNewExportingProcess(conn, domain)
	inner := common.TemplateSet(300, kinds2)
	l := sx.Int("setLength")
	sx.Assume(l >= 65400)
	sx.Assume(l <= 65600)
	s := &symSet{Set: inner, length: l}
	n, err := ep.SendSet(s)
	fits := 16+l <= 65535
	if err == nil {
		sx.Assert(fits, "oversized-message-transmitted")
		sx.Assert(len(conn.Writes) == 1, "one-write")
		sx.Assert(len(conn.Writes[0]) <= 65535, "written-size-within-limit")
		sx.Assert(n == len(conn.Writes[0]), "byte-count")
		sx.Reach("fits")
		return
	}
	sx.Assert(!fits, "fitting-message-refused")
	sx.Assert(len(conn.Writes) == 0, "refusal-writes-nothing")
	sx.Reach("oversized")
}

// Check_UndefinedSetType: a reset (undefined) set is refused.
func Check_UndefinedSetType() {
	domain := sx.U32("domain")
	conn := &common.FakeConn{}
	ep := exporter.VerifNewExportingProcess(conn, domain)
	s := entities.NewSet(false)
	if sx.Choose("how", 2) == 1 {
		sx.Assert(s.PrepareSet(entities.Data, 300) == nil, "prepare")
	}
	s.ResetSet()
	n, err := ep.SendSet(s)
	sx.Reach("refused")
	afterRefusal(ep, conn, 0, n, err, domain)
}

// Check_Fidelity: a value that cannot be encoded for its element (wrong
// address family, wrong fixed length) must yield an error, never a transmitted
// message whose field differs from the value.
func Check_Fidelity() {
	domain := sx.U32("domain")
	conn := &common.FakeConn{}
	ep := exporter.VerifNewExportingProcess(conn, domain)
	const tplID = 300
	c := sx.Choose("case", 4)
	var k common.Kind
	var elem entities.InfoElementWithValue
	var raw []byte
	switch c {
	case 0: // IPv4 element, 16-byte address that is not v4-mapped (or other lengths)
		k = common.KIPv4
		n := []int{0, 3, 4, 5, 16}[sx.Choose("len", 5)]
		raw = sx.Bytes("ip", n)
		elem = entities.NewIPAddressInfoElement(common.IE(k), net.IP(raw))
	case 1: // IPv6 element, wrong lengths
		k = common.KIPv6
		n := []int{0, 3, 4, 15, 16, 17}[sx.Choose("len", 6)]
		raw = sx.Bytes("ip", n)
		elem = entities.NewIPAddressInfoElement(common.IE(k), net.IP(raw))
	case 2: // MAC of length 0..8
		k = common.KMac
		raw = sx.Bytes("mac", sx.Range("len", 0, 8))
		elem = entities.NewMacAddressInfoElement(common.IE(k), net.HardwareAddr(raw))
	case 3: // fixed-length octet array (5) of length 0..7
		k = common.KOctetFix
		raw = sx.Bytes("octets", sx.Range("len", 0, 7))
		elem = entities.NewOctetArrayInfoElement(common.IE(k), raw)
	}
	ks := []common.Kind{common.KU16, k, common.KU32}
	_, err := ep.SendSet(common.TemplateSet(tplID, ks))
	sx.Assert(err == nil, "template-ok")
	s1 := common.Draw(common.KU16, "before", 0)
	s2 := common.Draw(common.KU32, "after", 0)
	ds := entities.NewSet(false)
	sx.Assert(ds.PrepareSet(entities.Data, tplID) == nil, "prepare")
	err = ds.AddRecord([]entities.InfoElementWithValue{common.Element(s1), elem, common.Element(s2)}, tplID)
	if err != nil {
		sx.Reach("refused-at-add")
		return
	}
	// what the application does around the send: nothing special; it reads the
	// record's buffer first (e.g. to log or size it); or it retries the same set
	// once after a refusal
	use := sx.Choose("applicationUse", 3)
	if use == 1 {
		_ = ds.GetRecords()[0].GetBuffer()
		_ = ds.GetSetLength()
	}
	before := len(conn.Writes)
	_, err = ep.SendSet(ds)
	if err != nil && use == 2 {
		sx.Assert(len(conn.Writes) == before, "refusal-writes-nothing")
		_, err = ep.SendSet(ds)
		sx.Reach("retried")
	}
	if err != nil {
		sx.Assert(len(conn.Writes) == before, "refusal-writes-nothing")
		sx.Reach("refused-at-send")
		return
	}
	// transmitted: the field must carry the value faithfully
	sx.Assert(len(conn.Writes) == before+1, "one-write")
	w := conn.Writes[before]
	width := k.Width()
	sx.Assert(len(w) == 20+2+width+4, "message-size")
	field := w[22 : 22+width]
	// the value as the element's type defines it on the wire
	want := raw
	if k == common.KIPv4 && len(raw) == 16 {
		// a v4-mapped 16-byte address is a well-typed IPv4 value: its last 4 bytes
		mapped := sx.And(raw[0] == 0, raw[1] == 0, raw[2] == 0, raw[3] == 0, raw[4] == 0, raw[5] == 0, raw[6] == 0, raw[7] == 0, raw[8] == 0, raw[9] == 0, raw[10] == 0xff, raw[11] == 0xff)
		sx.Assert(mapped, "ipv6-address-in-ipv4-element-transmitted")
		want = raw[12:]
	}
	if k == common.KIPv6 && len(raw) == 4 {
		// a 4-byte address is representable as v4-in-v6
		want = append([]byte{0, 0, 0, 0, 0, 0, 0, 0, 0, 0, 0xff, 0xff}, raw...)
	}
	sx.Assert(len(want) == width, "ill-typed-value-transmitted")
	sx.Assert(sx.EqBytes(field, want), "field-differs-from-value")
	sx.Assert(sx.EqBytes(w[20:22], s1.Enc), "neighbour-before-intact")
	sx.Assert(sx.EqBytes(w[22+width:], s2.Enc), "neighbour-after-intact")
	sx.Reach("transmitted-faithfully")
}

var Table = map[string]runner.Entry{
	"Check_UnknownTemplate":   {Setup: Setup, Fn: Check_UnknownTemplate},
	"Check_FieldCount":        {Setup: Setup, Fn: Check_FieldCount},
	"Check_SizeLimit":         {Setup: Setup, Fn: Check_SizeLimit},
	"Check_SizeLimitSymbolic": {Setup: Setup, Fn: Check_SizeLimitSymbolic},
	"Check_UndefinedSetType":  {Setup: Setup, Fn: Check_UndefinedSetType},
	"Check_Fidelity":          {Setup: Setup, Fn: Check_Fidelity},
}
