// Package c11: TCP framing - same messages however the byte stream is
// segmented (property C11).
package c11

import (
	"github.com/vmware/go-ipfix/pkg/collector"
	"github.com/vmware/go-ipfix/pkg/entities"

	"verifh/common"
	"verifh/ref"
	"verifh/runner"
	"verifh/sx"
)

func Setup() { common.Setup() }

const domain = 77
const tplID = 400

func templateMsg() []byte {
	set := ref.U16(nil, 2)
	set = ref.U16(set, 0)
	set = ref.U16(set, tplID)
	set = ref.U16(set, 2)
	for _, k := range []common.Kind{common.KU32, common.KString} {
		ie := common.IE(k)
		set = ref.FieldSpec(set, ie.ElementId, ie.Len, ie.EnterpriseId)
	}
	set[2], set[3] = byte(len(set)>>8), byte(len(set))
	return common.RefMessage(0, 0, domain, set)
}

type dataVals struct {
	v uint32
	s []byte
}

func dataMsg(seq uint32, d dataVals) []byte {
	set := ref.U16(nil, tplID)
	set = ref.U16(set, 0)
	set = ref.U32(set, d.v)
	set = ref.Var(set, d.s)
	set[2], set[3] = byte(len(set)>>8), byte(len(set))
	return common.RefMessage(0, seq, domain, set)
}

// kinds of undecodable message
const (
	badVersion     = iota
	badShortLength // the header's length field is shorter than the content: the message is cut mid-record
	badUnknownTemplate
	badRuntLength // the header's length field is smaller than the 16-byte header itself (0 or 15)
	numBad
)

func drain(cp *collector.CollectingProcess) []*entities.Message {
	var out []*entities.Message
	for {
		select {
		case m := <-cp.GetMsgChan():
			out = append(out, m)
		default:
			return out
		}
	}
}

// Check_Segmentation: a stream of a template message and two data messages
// with symbolic values, optionally with one undecodable message inserted at
// any position, delivered by a connection that returns it in segments cut at
// every single position (quick) or every pair of positions (thorough).
func Check_Segmentation() {
	d := []dataVals{{sx.U32("v1"), sx.Bytes("s1", 3)}, {sx.U32("v2"), sx.Bytes("s2", 1)}}
	msgs := [][]byte{templateMsg(), dataMsg(1, d[0]), dataMsg(2, d[1])}
	badAt := sx.Choose("invalidMessageAt", len(msgs)+2) - 1 // -1: none; 0..len: position
	var stream []byte
	valid := len(msgs)
	if badAt >= 0 {
		var bad []byte
		switch sx.Choose("invalidKind", numBad) {
		case badVersion:
			bad = dataMsg(9, dataVals{1, []byte{1}})
			bad[1] = 9
		case badShortLength:
			bad = dataMsg(9, dataVals{1, []byte{1, 2, 3, 4}})
			n := len(bad) - 3
			bad[2], bad[3] = byte(n>>8), byte(n)
		case badUnknownTemplate:
			bad = dataMsg(9, dataVals{1, []byte{1}})
			bad[16], bad[17] = 0x03, 0x00 // set id 768: no such template
		case badRuntLength:
			bad = dataMsg(9, dataVals{1, []byte{1}})
			bad[2], bad[3] = 0, []byte{0, 15}[sx.Choose("runtLength", 2)]
		}
		var ms [][]byte
		ms = append(ms, msgs[:badAt]...)
		ms = append(ms, bad)
		ms = append(ms, msgs[badAt:]...)
		msgs = ms
		valid = badAt
	}
	for _, m := range msgs {
		stream = append(stream, m...)
	}
	var cuts []int
	c1 := sx.Range("cut1", 0, len(stream)-1) // 0: no cut
	if c1 > 0 {
		cuts = append(cuts, c1)
		if sx.Tier() > 0 {
			c2 := sx.Range("cut2", c1, len(stream)-1) // == c1: no second cut
			if c2 > c1 {
				cuts = append(cuts, c2)
			}
		}
	}
	conn := &common.FakeConn{ReadData: stream, Cuts: cuts, DeadlineTimeouts: true}
	cp, err := collector.VerifNewCollectingProcess(collector.CollectorInput{Protocol: "tcp", Address: "x"}, nil, 16)
	sx.Assert(err == nil, "init")
	// another exporter of the same observation domain announced its template earlier
	other := sx.Choose("otherConnectionBefore", 2) == 1
	if other {
		conn0 := &common.FakeConn{ReadData: templateMsg(), Remote: "10.0.0.9:999"}
		cp.VerifHandleTCPClient(conn0)
		sx.Assert(len(drain(cp)) == 1, "other-connection-template")
	}
	cp.VerifHandleTCPClient(conn)
	got := drain(cp)

	// exactly the messages up to the first undecodable one, in order
	sx.Assert(len(got) == valid, "delivered-message-count")
	di := 0
	for i, m := range got {
		sx.Assert(m.GetObsDomainID() == domain, "domain")
		if badAt >= 0 && i >= badAt {
			break
		}
		if m.GetSet().GetSetType() == entities.Template {
			sx.Assert(i == 0, "template-position")
			continue
		}
		recs := m.GetSet().GetRecords()
		sx.Assert(len(recs) == 1, "one-record")
		el := recs[0].GetOrderedElementList()
		sx.Assert(len(el) == 2, "two-fields")
		sx.Assert(sx.And(m.GetSequenceNum() == uint32(di+1), el[0].GetUnsigned32Value() == d[di].v, el[1].GetStringValue() == string(d[di].s)), "message-assembled-from-the-wrong-bytes")
		di++
	}
	sx.Assert(conn.Closed >= 1, "connection-not-closed")
	sx.Assert(cp.GetNumConnToCollector() == 0, "client-not-removed")
	if badAt >= 0 {
		sx.Reach("closed-after-undecodable-message")
		// another connection is unaffected: one that announces its template now, or
		// (otherConnectionBefore) one that announced it before the bad message and
		// only sends data afterwards
		d3 := dataVals{sx.U32("v3"), sx.Bytes("s3", 2)}
		conn2 := &common.FakeConn{ReadData: append(templateMsg(), dataMsg(1, d3)...), Remote: "10.0.0.9:999"}
		wantMsgs := 2
		if other {
			conn2.ReadData = dataMsg(1, d3)
			wantMsgs = 1
			sx.Reach("live-other-connection")
		}
		cp.VerifHandleTCPClient(conn2)
		got2 := drain(cp)
		sx.Assert(len(got2) == wantMsgs, "other-connection-affected")
		el := got2[wantMsgs-1].GetSet().GetRecords()[0].GetOrderedElementList()
		sx.Assert(sx.And(el[0].GetUnsigned32Value() == d3.v, el[1].GetStringValue() == string(d3.s)), "other-connection-values")
	} else {
		sx.Reach("all-delivered")
	}
	if len(cuts) == 2 {
		sx.Reach("two-cuts")
	}
}

// Check_LargeMessage: a message larger than the 4096-byte default buffer of
// bufio (and, thorough, one of the maximum size) between ordinary ones, cut
// around the buffer boundary: every message is delivered, in order, from its
// own bytes.
func Check_LargeMessage() {
	sizes := []int{4100, 4077, 4076}
	if sx.Tier() > 0 {
		sizes = append(sizes, 8200, 65000)
	}
	size := sizes[sx.Choose("largeStringLength", len(sizes))]
	big := make([]byte, size)
	head := sx.Bytes("bigHead", 2)
	tail := sx.Bytes("bigTail", 2)
	copy(big, head)
	copy(big[size-2:], tail)
	d := []dataVals{{sx.U32("v1"), big}, {sx.U32("v2"), sx.Bytes("s2", 1)}, {sx.U32("v3"), sx.Bytes("s3", 2)}}
	msgs := [][]byte{templateMsg(), dataMsg(1, d[0]), dataMsg(2, d[1]), dataMsg(3, d[2])}
	var stream []byte
	for _, m := range msgs {
		stream = append(stream, m...)
	}
	bigStart, bigEnd := len(msgs[0]), len(msgs[0])+len(msgs[1])
	cutMenu := [][]int{nil, {bigStart + 1}, {4096}, {4097}, {bigEnd - 1}, {bigEnd}, {bigEnd + 1}, {bigStart + 3, 4096, bigEnd + 17}, {4095, bigEnd}}
	cuts := cutMenu[sx.Choose("cuts", len(cutMenu))]
	conn := &common.FakeConn{ReadData: stream, Cuts: cuts, DeadlineTimeouts: true}
	cp, err := collector.VerifNewCollectingProcess(collector.CollectorInput{Protocol: "tcp", Address: "x"}, nil, 16)
	sx.Assert(err == nil, "init")
	cp.VerifHandleTCPClient(conn)
	got := drain(cp)
	sx.Assert(len(got) == 4, "large-message-stream-delivered-message-count")
	for i, m := range got {
		if i == 0 {
			sx.Assert(m.GetSet().GetSetType() == entities.Template, "template-position")
			continue
		}
		el := m.GetSet().GetRecords()[0].GetOrderedElementList()
		sx.Assert(sx.And(m.GetSequenceNum() == uint32(i), el[0].GetUnsigned32Value() == d[i-1].v), "message-assembled-from-the-wrong-bytes")
		sv := el[1].GetStringValue()
		sx.Assert(len(sv) == len(d[i-1].s), "string-length")
		if i == 1 {
			sx.Assert(sx.And(sv[:2] == string(head), sv[size-2:] == string(tail)), "large-string-content")
		} else {
			sx.Assert(sv == string(d[i-1].s), "message-assembled-from-the-wrong-bytes")
		}
	}
	sx.Assert(conn.Closed >= 1, "connection-not-closed")
	sx.Reach("large-delivered")
}

var Table = map[string]runner.Entry{
	"Check_LargeMessage": {Setup: Setup, Fn: Check_LargeMessage},
	"Check_Segmentation": {Setup: Setup, Fn: Check_Segmentation},
}
