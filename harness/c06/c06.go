// Package c06: flow expiry - callbacks fire exactly at deadlines and no flow
// is ever stranded (property C06).
package c06

import (
	"errors"
	"time"

	"github.com/vmware/go-ipfix/pkg/intermediate"
	"github.com/vmware/go-ipfix/pkg/registry"

	"verifh/agg"
	"verifh/common"
	"verifh/runner"
	"verifh/sx"
)

func Setup() { common.Setup() }

// Virtual time: the clock stands still at T0 (engine: frozen clock; native:
// the real clock, which moves by microseconds while every duration below is a
// multiple of agg.Tick = 2^30 ns).  Deadlines are placed at T0 + k*Tick with k
// symbolic, which is the same as letting arbitrary time pass.

// rec: the flows of the first and third key are intra-node flows; the second
// key's is an inter-node flow denied at egress: it needs no correlation, is
// ready at once, and by design never has its correlated fields filled.
func rec(k agg.Key) agg.Rec {
	if k == agg.Keys[1] {
		return agg.Rec{Key: k, FlowType: registry.FlowTypeInterNode, EgressAction: registry.NetworkPolicyRuleActionDrop, SrcPod: "pod1", SrcNode: "node1", TCPState: "ESTABLISHED", End: 1}
	}
	return agg.Rec{Key: k, FlowType: registry.FlowTypeIntraNode, SrcPod: "pod1", DstPod: "pod2", TCPState: "ESTABLISHED", End: 1}
}

func ticks(name string) time.Duration {
	k := sx.I16(name)
	sx.Assume(k >= -400)
	sx.Assume(k <= 400)
	// a deadline that coincides EXACTLY with the scan instant cannot be staged
	// against the real clock in a native replay; the statement leaves that
	// instant open ("has passed"), so it is excluded here (stated in the evidence)
	sx.Assume(k != 0)
	return time.Duration(int64(k)) << 30
}

type flow struct {
	key              agg.Key
	active, inactive time.Duration // offsets from T0
	ready            bool
	retries          int
}

func minOff(f flow) time.Duration {
	if f.active < f.inactive {
		return f.active
	}
	return f.inactive
}

// invariant checks I1..I3 of DESIGN.md appendix C on the real map and heap.
func invariant(a *intermediate.AggregationProcess, label string) []intermediate.VerifItem {
	items, keys := a.VerifSnapshot()
	sx.Assert(len(items) == len(keys), label+": every-held-flow-has-exactly-one-scheduled-entry")
	for i, it := range items {
		sx.Assert(it.Index == i, label+": heap-index")
		sx.Assert(it.InMap, label+": scheduled-entry-refers-to-a-held-flow")
		sx.Assert(it.RecordHasItem, label+": flow-points-to-its-entry")
		for j := 0; j < i; j++ {
			sx.Assert(items[j].Key != it.Key, label+": duplicate-entry")
		}
		if i > 0 {
			p := items[(i-1)/2]
			sx.Assert(!minT(it).Before(minT(p)), label+": heap-order")
		}
	}
	return items
}

func minT(it intermediate.VerifItem) time.Time {
	if it.Active.Before(it.Inactive) {
		return it.Active
	}
	return it.Inactive
}

var errCallback = errors.New("callback failed")

// Check_Step: one operation from an arbitrary valid (map, heap) state.
func Check_Step() {
	sx.Note("C06: deadlines lie at T0 + k*2^30 ns, k in [-400,400] \\ {0}: a deadline exactly equal to the scan instant is excluded (not reproducible against the real clock; the statement leaves it open)")
	maxFlows := 2
	if sx.Tier() > 0 {
		maxFlows = 3
	}
	maxFlows = sx.Param("maxFlows", maxFlows)
	a := agg.New(false)
	n := sx.Range("flows", 0, maxFlows)
	T0 := time.Now()
	fl := make([]flow, n)
	if n >= 2 {
		// several flows are created by ONE message carrying a record of each (a
		// single flow by a message of its own; the record operation below adds
		// flows by single-record messages too)
		var rs []agg.Rec
		for i := 0; i < n; i++ {
			rs = append(rs, rec(agg.Keys[i]))
		}
		sx.Assert(a.AggregateMsgByFlowKey(agg.Message(rs...)) == nil, "create")
	}
	for i := range fl {
		f := flow{key: agg.Keys[i]}
		if n < 2 {
			sx.Assert(a.AggregateMsgByFlowKey(agg.Message(rec(f.key))) == nil, "create")
		}
		f.active, f.inactive = ticks("active"), ticks("inactive")
		sx.Assert(a.VerifSetDeadlines(f.key.FlowKey(), T0.Add(f.active), T0.Add(f.inactive)), "set-deadlines")
		if i < 2 {
			f.ready = sx.Bool("ready")
			f.retries = sx.Range("retries", 0, intermediate.MaxRetries)
		} else {
			// a third flow (thorough tier) adds the orderings between three deadlines;
			// its own state is fixed (ready, no retries used, callback succeeds) to keep
			// the product of cases within reach
			f.ready = true
		}
		sx.Assert(a.VerifSetFlowState(f.key.FlowKey(), f.ready, f.retries), "set-state")
		fl[i] = f
	}
	invariant(a, "pre")

	switch sx.Choose("operation", 3) {
	case 0: // a record for an existing or a new key
		ki := sx.Choose("key", n+1)
		if ki >= len(agg.Keys) {
			return
		}
		sx.Assert(a.AggregateMsgByFlowKey(agg.Message(rec(agg.Keys[ki]))) == nil, "record")
		items := invariant(a, "after-record")
		want := n
		if ki == n {
			want = n + 1
		}
		sx.Assert(len(items) == want, "flow-count-after-record")
		for _, it := range items {
			if it.Key != agg.Keys[ki].FlowKey() {
				continue
			}
			// the inactive deadline is pushed back by every new record
			sx.Assert(it.Inactive.Sub(T0) >= agg.InactiveTimeout && it.Inactive.Sub(T0) < agg.InactiveTimeout+agg.Tick, "inactive-deadline-pushed-back")
			if ki < n {
				sx.Assert(it.Active.Sub(T0) >= fl[ki].active && it.Active.Sub(T0) < fl[ki].active+agg.Tick, "active-deadline-unchanged-by-record")
			} else {
				sx.Assert(it.Active.Sub(T0) >= agg.ActiveTimeout && it.Active.Sub(T0) < agg.ActiveTimeout+agg.Tick, "active-deadline-set-at-creation")
			}
		}
		sx.Reach("record")

	case 1: // expiry scan, callback failing on a chosen subset of keys
		nf := n
		if nf > 2 {
			nf = 2
		}
		failMask := sx.Choose("failingKeys", 1<<uint(nf))
		var called []int
		err := a.ForAllExpiredFlowRecordsDo(func(key intermediate.FlowKey, r *intermediate.AggregationFlowRecord) error {
			for i := range fl {
				if fl[i].key.FlowKey() == key {
					called = append(called, i)
					if failMask&(1<<uint(i)) != 0 {
						return errCallback
					}
				}
			}
			return nil
		})
		failed := err != nil
		// (a) never early, only ready flows, earliest deadline first, at most once
		for ci, i := range called {
			sx.Assert(minOff(fl[i]) <= 0, "callback-before-deadline")
			sx.Assert(fl[i].ready, "callback-for-flow-not-ready")
			for _, j := range called[:ci] {
				sx.Assert(j != i, "callback-twice-for-one-deadline")
				sx.Assert(minOff(fl[j]) <= minOff(fl[i]), "callbacks-not-earliest-deadline-first")
			}
		}
		if failed {
			sx.Assert(len(called) > 0 && failMask&(1<<uint(called[len(called)-1])) != 0, "scan-error-without-failing-callback")
			sx.Reach("callback-failed")
		} else {
			for _, i := range called {
				sx.Assert(failMask&(1<<uint(i)) == 0, "callback-failure-swallowed")
			}
		}
		// (f) whatever happened, nothing is stranded
		items := invariant(a, "after-scan")
		held := func(i int) (intermediate.VerifItem, bool) {
			for _, it := range items {
				if it.Key == fl[i].key.FlowKey() {
					return it, true
				}
			}
			return intermediate.VerifItem{}, false
		}
		wasCalled := func(i int) bool {
			for _, j := range called {
				if j == i {
					return true
				}
			}
			return false
		}
		for i, f := range fl {
			it, ok := held(i)
			m := minOff(f)
			switch {
			case wasCalled(i) && !(failed && called[len(called)-1] == i):
				// successfully exported
				if f.inactive < 0 {
					sx.Assert(!ok, "inactive-expired-flow-kept")
					sx.Reach("inactive-expiry-removes")
				}
				if f.inactive > 0 {
					sx.Assert(ok, "active-expired-flow-removed")
					sx.Assert(it.Active.Sub(T0) >= agg.ActiveTimeout && it.Active.Sub(T0) < agg.ActiveTimeout+agg.Tick, "active-deadline-not-re-armed")
					sx.Assert(it.Inactive.Sub(T0) >= f.inactive && it.Inactive.Sub(T0) < f.inactive+agg.Tick, "inactive-deadline-changed-by-active-expiry")
					sx.Reach("active-expiry-keeps")
				}
			case wasCalled(i):
				// the failing callback: the flow must stay held and scheduled (checked by the invariant) at its old deadlines
				sx.Assert(ok, "flow-dropped-after-callback-failure")
				sx.Assert(it.Active.Sub(T0) >= f.active && it.Active.Sub(T0) < f.active+agg.Tick && it.Inactive.Sub(T0) >= f.inactive && it.Inactive.Sub(T0) < f.inactive+agg.Tick, "deadlines-changed-after-callback-failure")
			case !failed && m < 0 && f.ready:
				sx.Assert(false, "expired-ready-flow-not-exported")
			case !failed && m < 0 && !f.ready:
				// waiting for correlation: retried a bounded number of times, then dropped
				// (how many retries is C07's subject; here: either dropped, or still held and re-armed into the future)
				if ok {
					sx.Assert(it.Active.Sub(T0) > 0 && it.Inactive.Sub(T0) > 0, "not-ready-flow-not-re-armed")
					sx.Assert(f.retries+1 <= intermediate.MaxRetries, "uncorrelated-flow-kept-beyond-max-retries")
				}
				sx.Reach("not-ready")
			case m > 0:
				sx.Assert(ok, "flow-removed-before-deadline")
				sx.Assert(it.Active.Sub(T0) >= f.active && it.Active.Sub(T0) < f.active+agg.Tick && it.Inactive.Sub(T0) >= f.inactive && it.Inactive.Sub(T0) < f.inactive+agg.Tick, "deadlines-of-unexpired-flow-changed")
			}
			if !failed && ok {
				// every flow still held is scheduled for a future expiry
				sx.Assert(!it.Active.Before(T0) && !it.Inactive.Before(T0), "held-flow-scheduled-in-the-past-after-scan")
			}
		}
		sx.Reach("scan")

	case 2: // advertised time to the next expiry
		d := a.GetExpiryFromExpirePriorityQueue()
		if n == 0 {
			sx.Assert(d == agg.ActiveTimeout, "empty-queue-expiry")
			sx.Reach("expiry-empty")
			return
		}
		earliest := minOff(fl[0])
		for _, f := range fl[1:] {
			if minOff(f) < earliest {
				earliest = minOff(f)
			}
		}
		// the real clock moves a little between T0 and the call (native replay): allow one tick
		want := intermediate.MinExpiryTime + earliest
		if want < 0 {
			sx.Assert(d == intermediate.MinExpiryTime, "expiry-clamped")
		} else {
			sx.Assert(d <= want && d > want-agg.Tick, "advertised-expiry-matches-earliest-deadline")
		}
		sx.Reach("expiry")
	}
}

// Check_RecordOnWaitingFlow: an inter-node flow that waits for its correlation
// (created by one node's record, arbitrary deadlines) receives another record,
// from the same node or from the other one: in both cases the inactive
// deadline is pushed back to now + timeout and the active deadline stays; the
// advertised next expiry follows.
func Check_RecordOnWaitingFlow() {
	a := agg.New(false)
	k := agg.Keys[0]
	T0 := time.Now()
	fromSrc := func() agg.Rec {
		return agg.Rec{Key: k, FlowType: registry.FlowTypeInterNode, SrcPod: "pod1", SrcNode: "node1", TCPState: "ESTABLISHED", End: 1}
	}
	fromDst := func() agg.Rec {
		return agg.Rec{Key: k, FlowType: registry.FlowTypeInterNode, DstPod: "pod2", DstNode: "node2", TCPState: "ESTABLISHED", End: 1}
	}
	first := sx.Choose("creatingNode", 2)
	mk := []func() agg.Rec{fromSrc, fromDst}
	sx.Assert(a.AggregateMsgByFlowKey(agg.Message(mk[first]())) == nil, "create")
	active, inactive := ticks("active"), ticks("inactive")
	sx.Assert(a.VerifSetDeadlines(k.FlowKey(), T0.Add(active), T0.Add(inactive)), "set-deadlines")
	// earlier expiry scans may already have counted retries for the waiting flow
	sx.Assert(a.VerifSetFlowState(k.FlowKey(), false, sx.Range("retriesCounted", 0, intermediate.MaxRetries)), "set-state")
	invariant(a, "pre")
	second := sx.Choose("secondRecordFrom", 2)
	sx.Assert(a.AggregateMsgByFlowKey(agg.Message(mk[second]())) == nil, "record")
	items := invariant(a, "after-record")
	sx.Assert(len(items) == 1, "one-flow")
	it := items[0]
	sx.Assert(it.ReadyToSend == (first != second), "ready-exactly-when-both-nodes-reported")
	sx.Assert(it.Inactive.Sub(T0) >= agg.InactiveTimeout && it.Inactive.Sub(T0) < agg.InactiveTimeout+agg.Tick, "inactive-deadline-pushed-back")
	sx.Assert(it.Active.Sub(T0) >= active && it.Active.Sub(T0) < active+agg.Tick, "active-deadline-unchanged-by-record")
	if first == second {
		sx.Reach("same-node-record")
	} else {
		sx.Reach("correlating-record")
	}
}

// Check_RejectedRecord: with statistics aggregation configured, the first
// record of a flow is rejected (it lacks flowStartSeconds): nothing is held
// and nothing is scheduled; a later well-formed record of the same key
// creates exactly one flow with one scheduled entry, exported once.
func Check_RejectedRecord() {
	a := agg.New(true)
	k := agg.Keys[0]
	bad := rec(k)
	bad.OmitStart = true
	err := a.AggregateMsgByFlowKey(agg.Message(bad))
	items := invariant(a, "after-rejected-record")
	if err != nil {
		sx.Assert(len(items) == 0 && a.GetNumFlows() == 0, "rejected-record-left-a-flow-or-a-scheduled-entry")
		sx.Reach("rejected")
	}
	good := rec(k)
	good.Start, good.End = 1, 2
	sx.Assert(a.AggregateMsgByFlowKey(agg.Message(good)) == nil, "record")
	items = invariant(a, "after-record")
	sx.Assert(len(items) == 1 && a.GetNumFlows() == 1, "one-flow-one-entry")
	a.VerifShiftDeadlines(-(agg.InactiveTimeout + agg.Tick))
	n := 0
	sx.Assert(a.ForAllExpiredFlowRecordsDo(func(intermediate.FlowKey, *intermediate.AggregationFlowRecord) error { n++; return nil }) == nil, "scan")
	sx.Assert(n == 1, "callback-count-for-one-flow")
	invariant(a, "after-scan")
	sx.Reach("recovered")
}

var Table = map[string]runner.Entry{
	"Check_RejectedRecord":      {Setup: Setup, Fn: Check_RejectedRecord},
	"Check_RecordOnWaitingFlow": {Setup: Setup, Fn: Check_RecordOnWaitingFlow},
	"Check_Step":                {Setup: Setup, Fn: Check_Step},
}
