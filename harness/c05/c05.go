// Package c05: flow aggregation arithmetic - sums, latest values and
// throughput are conserved (property C05).
package c05

import (
	"github.com/vmware/go-ipfix/pkg/entities"
	"github.com/vmware/go-ipfix/pkg/intermediate"
	"github.com/vmware/go-ipfix/pkg/registry"

	"verifh/agg"
	"verifh/common"
	"verifh/runner"
	"verifh/sx"
)

func Setup() { common.Setup() }

const (
	fromSrc = iota
	fromDst
	single // a flow that needs no correlation: one reporting stream fills both node sides
)

// flavours of a flow that needs no correlation (who == single)
const (
	intraNode = iota
	toExternal
	fromExternal
	interNodeEgressDrop   // denied at the source node: only the source node ever reports
	interNodeEgressReject
	interNodeIngressReject // rejected at the destination node
	numFlavours
)

func baseRec(k agg.Key, who int) agg.Rec { return baseRecF(k, who, intraNode) }

func baseRecF(k agg.Key, who, flavour int) agg.Rec {
	r := agg.Rec{Key: k, TCPState: "ESTABLISHED", EndReason: registry.ActiveTimeoutReason}
	if who == single && flavour != intraNode {
		switch flavour {
		case toExternal:
			r.FlowType = registry.FlowTypeToExternal
			r.SrcPod, r.SrcNS, r.SrcNode = "pod1", "ns1", "node1"
		case fromExternal:
			r.FlowType = registry.FlowTypeFromExternal
			r.DstPod, r.DstNS, r.DstNode = "pod2", "ns2", "node2"
		case interNodeEgressDrop, interNodeEgressReject:
			r.FlowType = registry.FlowTypeInterNode
			r.SrcPod, r.SrcNS, r.SrcNode = "pod1", "ns1", "node1"
			r.EgressAction = registry.NetworkPolicyRuleActionDrop
			if flavour == interNodeEgressReject {
				r.EgressAction = registry.NetworkPolicyRuleActionReject
			}
		case interNodeIngressReject:
			r.FlowType = registry.FlowTypeInterNode
			r.DstPod, r.DstNS, r.DstNode = "pod2", "ns2", "node2"
			r.IngressAction = registry.NetworkPolicyRuleActionReject
		}
		return r
	}
	switch who {
	case fromSrc:
		r.FlowType = registry.FlowTypeInterNode
		r.SrcPod, r.SrcNS, r.SrcNode = "pod1", "ns1", "node1"
	case fromDst:
		r.FlowType = registry.FlowTypeInterNode
		r.DstPod, r.DstNS, r.DstNode = "pod2", "ns2", "node2"
	case single:
		r.FlowType = registry.FlowTypeIntraNode
		r.SrcPod, r.DstPod = "pod1", "pod2"
	}
	return r
}

func symStats(tag string) (s [8]uint64) {
	for i := range s {
		s[i] = sx.U64(tag)
	}
	return
}

func feed(a *intermediate.AggregationProcess, r agg.Rec) {
	sx.Assert(a.AggregateMsgByFlowKey(agg.Message(r)) == nil, "aggregate-no-error")
}

type side struct {
	stat [8]uint64
	end  uint32
	thr  [2]uint64
}

type state struct {
	common side
	src    side
	dst    side
}

func readState(rec entities.Record) (s state) {
	for i := range agg.Stats {
		s.common.stat[i] = agg.U64(rec, agg.Stats[i])
		s.src.stat[i] = agg.U64(rec, agg.SrcStats[i])
		s.dst.stat[i] = agg.U64(rec, agg.DstStats[i])
	}
	for i := range agg.Throughput {
		s.common.thr[i] = agg.U64(rec, agg.Throughput[i])
		s.src.thr[i] = agg.U64(rec, agg.SrcThroughput[i])
		s.dst.thr[i] = agg.U64(rec, agg.DstThroughput[i])
	}
	s.common.end = agg.U32(rec, "flowEndSeconds")
	s.src.end = agg.U32(rec, "flowEndSecondsFromSourceNode")
	s.dst.end = agg.U32(rec, "flowEndSecondsFromDestinationNode")
	return
}

func writeState(rec entities.Record, s state) {
	for i := range agg.Stats {
		agg.SetU64(rec, agg.Stats[i], s.common.stat[i])
		agg.SetU64(rec, agg.SrcStats[i], s.src.stat[i])
		agg.SetU64(rec, agg.DstStats[i], s.dst.stat[i])
	}
	for i := range agg.Throughput {
		agg.SetU64(rec, agg.Throughput[i], s.common.thr[i])
		agg.SetU64(rec, agg.SrcThroughput[i], s.src.thr[i])
		agg.SetU64(rec, agg.DstThroughput[i], s.dst.thr[i])
	}
	agg.SetU32(rec, "flowEndSeconds", s.common.end)
	agg.SetU32(rec, "flowEndSecondsFromSourceNode", s.src.end)
	agg.SetU32(rec, "flowEndSecondsFromDestinationNode", s.dst.end)
}

func symSide(tag string) (s side) {
	s.stat = symStats(tag + "-stat")
	s.end = sx.U32(tag + "-end")
	s.thr[0] = sx.U64(tag + "-thr")
	s.thr[1] = sx.U64(tag + "-thr")
	return
}

func sideEq(a, b side) bool {
	ok := a.end == b.end
	for i := range a.stat {
		ok = sx.And(ok, a.stat[i] == b.stat[i])
	}
	return sx.And(ok, a.thr[0] == b.thr[0], a.thr[1] == b.thr[1])
}

// Check_Step: ONE record arriving on an aggregated flow whose every counter,
// per-node end time, delta and throughput field is symbolic (an arbitrary
// aggregated state, so histories of any length reduce to this step).
func Check_Step() {
	a := agg.New(true)
	k := agg.Keys[0]
	who := sx.Choose("reporter", 3)
	// bring the flow into existence through the real entry point
	other := sx.Choose("otherNodeReported", 2) == 1
	flavour := intraNode
	if who == single {
		flavour = sx.Choose("noCorrelationFlavour", numFlavours)
	}
	switch who {
	case single:
		r0 := baseRecF(k, single, flavour)
		r0.End = 1
		r0.Stat = symStats("r0-stat")
		feed(a, r0)
		// the creating record of a one-stream flow fills both node sides
		if fr0, ok := a.VerifFlowRecord(k.FlowKey()); ok {
			Q0 := readState(fr0.Record)
			okc := sideEq(Q0.src, Q0.dst)
			for i := range r0.Stat {
				okc = sx.And(okc, Q0.src.stat[i] == r0.Stat[i], Q0.common.stat[i] == r0.Stat[i])
			}
			sx.Assert(okc, "creating-record-of-a-one-stream-flow-does-not-fill-both-sides")
		}
	default:
		first := who
		if other {
			// the other node created the flow; this node's first record correlates
			first = 1 - who
		}
		r0 := baseRec(k, first)
		r0.End = 1
		feed(a, r0)
	}
	fr, ok := a.VerifFlowRecord(k.FlowKey())
	sx.Assert(ok, "flow-created")
	rec := fr.Record

	// arbitrary aggregated pre-state R
	var R state
	R.common = symSide("common")
	R.src = symSide("src")
	if who == single {
		R.dst = R.src // one stream fills both node sides identically
	} else {
		R.dst = symSide("dst")
	}
	// representation invariant of reachable states: the common end time is the latest of the node end times
	sx.Assume(sx.And(R.common.end >= R.src.end, R.common.end >= R.dst.end))
	if who != single && !other {
		// this node created the flow, the other one has not reported: its fields are still zero
		z := side{}
		if who == fromSrc {
			R.dst = z
		} else {
			R.src = z
		}
	}
	if who != single && other {
		// this node has not reported yet: its fields are still zero
		z := side{}
		if who == fromSrc {
			R.src = z
		} else {
			R.dst = z
		}
	}
	writeState(rec, R)
	me, peer := R.src, R.dst
	if who == fromDst {
		me, peer = R.dst, R.src
	}

	// incoming record r
	r := baseRecF(k, who, flavour)
	r.Stat = symStats("r-stat")
	r.Start = sx.U32("r-start")
	r.End = sx.U32("r-end")
	// the exporter contract the property states
	sx.Assume(r.End > r.Start)
	sx.Assume(sx.Or(me.end == 0, r.End > me.end))
	for i := range r.Stat {
		if agg.IsDelta(i) {
			sx.Assume(me.stat[i]+r.Stat[i] >= me.stat[i]) // the sum is representable
		} else {
			sx.Assume(r.Stat[i] >= me.stat[i]) // totals do not decrease
		}
	}
	sx.Assume(r.Stat[agg.IdxOctetTotal]-me.stat[agg.IdxOctetTotal] < 1<<61)
	sx.Assume(r.Stat[agg.IdxReverseOctetTotal]-me.stat[agg.IdxReverseOctetTotal] < 1<<61)
	prev := me.end
	if me.end == 0 {
		prev = r.Start
		sx.Reach("first-record-of-node")
	}
	feed(a, r)

	fr2, ok := a.VerifFlowRecord(k.FlowKey())
	sx.Assert(ok && fr2 == fr, "same-flow-record")
	Q := readState(fr.Record)
	mine, peerAfter := Q.src, Q.dst
	if who == fromDst {
		mine, peerAfter = Q.dst, Q.src
	}
	// latest end time
	wantEnd := R.common.end
	if r.End > R.common.end {
		wantEnd = r.End
	}
	sx.Assert(Q.common.end == wantEnd, "aggregate-carries-latest-end-time")
	sx.Assert(mine.end == r.End, "node-end-time")
	// node side: totals latest, deltas summed
	okNode := true
	for i := range r.Stat {
		if agg.IsDelta(i) {
			okNode = sx.And(okNode, mine.stat[i] == me.stat[i]+r.Stat[i])
		} else {
			okNode = sx.And(okNode, mine.stat[i] == r.Stat[i])
		}
	}
	sx.Assert(okNode, "node-totals-latest-and-deltas-summed")
	// node throughput: 8 x growth of the octet total / growth of the end time
	dt := uint64(r.End - prev)
	wantThr := (r.Stat[agg.IdxOctetTotal] - me.stat[agg.IdxOctetTotal]) * 8 / dt
	wantRev := (r.Stat[agg.IdxReverseOctetTotal] - me.stat[agg.IdxReverseOctetTotal]) * 8 / dt
	sx.Assert(sx.And(mine.thr[0] == wantThr, mine.thr[1] == wantRev), "node-throughput")
	// the other node's fields are untouched
	if who == single {
		sx.Assert(sideEq(Q.src, Q.dst), "single-stream-fills-both-sides")
	} else {
		sx.Assert(sideEq(peerAfter, peer), "other-nodes-fields-changed")
	}
	// common fields follow the reporter of the strictly latest end time
	latest := r.End > R.common.end
	older := r.End < R.common.end
	okLatest, okOlder := true, true
	for i := range r.Stat {
		if agg.IsDelta(i) {
			okLatest = sx.And(okLatest, Q.common.stat[i] == mine.stat[i])
		} else {
			// the common total is the reporter's when it is not below the stored one
			okLatest = sx.And(okLatest, sx.Implies(r.Stat[i] >= R.common.stat[i], Q.common.stat[i] == r.Stat[i]))
		}
		okOlder = sx.And(okOlder, Q.common.stat[i] == R.common.stat[i])
	}
	okLatest = sx.And(okLatest, Q.common.thr[0] == mine.thr[0], Q.common.thr[1] == mine.thr[1])
	okOlder = sx.And(okOlder, Q.common.thr[0] == R.common.thr[0], Q.common.thr[1] == R.common.thr[1])
	sx.Assert(sx.Implies(latest, okLatest), "common-fields-follow-latest-reporter")
	sx.Assert(sx.Implies(older, okOlder), "common-fields-changed-by-older-record")
	sx.Assert(a.GetNumFlows() == 1, "one-flow")
	sx.Reach("stepped")
}

// Check_Reset: from an arbitrary aggregated state a reset clears delta and
// throughput fields only.
func Check_Reset() {
	a := agg.New(true)
	k := agg.Keys[sx.Choose("key", 3)]
	r0 := baseRec(k, single)
	r0.End = 1
	feed(a, r0)
	fr, ok := a.VerifFlowRecord(k.FlowKey())
	sx.Assert(ok, "flow-created")
	var R state
	R.common, R.src, R.dst = symSide("common"), symSide("src"), symSide("dst")
	writeState(fr.Record, R)
	sx.Assert(a.ResetStatAndThroughputElementsInRecord(fr.Record) == nil, "reset-no-error")
	Q := readState(fr.Record)
	ok2 := true
	for _, p := range [][2]side{{R.common, Q.common}, {R.src, Q.src}, {R.dst, Q.dst}} {
		for i := range p[0].stat {
			if agg.IsDelta(i) {
				ok2 = sx.And(ok2, p[1].stat[i] == 0)
			} else {
				ok2 = sx.And(ok2, p[1].stat[i] == p[0].stat[i])
			}
		}
		ok2 = sx.And(ok2, p[1].thr[0] == 0, p[1].thr[1] == 0, p[1].end == p[0].end)
	}
	sx.Assert(ok2, "reset-clears-delta-and-throughput-only")
	sx.Reach("reset")
}

// Check_History: 2 (quick) / 3 (thorough) records over a pool of three 5-tuples (IPv4 and IPv6)
// interleaved with resets: one flow per distinct key, and a flow's aggregate
// is a function of its own records only (non-interference: the same records
// of that flow fed alone to a second process give the same aggregate).
func Check_History() {
	n := 2 + sx.Tier()
	a := agg.New(true)
	solo := agg.New(true)
	watch := sx.Choose("watchedKey", 3)
	seen := make([]bool, len(agg.Keys))
	lastEnd := make([]uint32, len(agg.Keys))
	for i := 0; i < n; i++ {
		ki := sx.Choose("key", 3)
		if sx.Choose("resetBefore", 2) == 1 && seen[ki] {
			fr, _ := a.VerifFlowRecord(agg.Keys[ki].FlowKey())
			sx.Assert(a.ResetStatAndThroughputElementsInRecord(fr.Record) == nil, "reset")
			if ki == watch {
				fs, _ := solo.VerifFlowRecord(agg.Keys[ki].FlowKey())
				sx.Assert(solo.ResetStatAndThroughputElementsInRecord(fs.Record) == nil, "reset-solo")
			}
		}
		r := baseRec(agg.Keys[ki], single)
		r.Stat = symStats("stat")
		r.Start = sx.U32("start")
		r.End = sx.U32("end")
		sx.Assume(r.End > r.Start)
		sx.Assume(r.End > lastEnd[ki])
		lastEnd[ki] = r.End
		seen[ki] = true
		feed(a, r)
		if ki == watch {
			feed(solo, r)
		}
	}
	distinct := 0
	for _, s := range seen {
		if s {
			distinct++
		}
	}
	sx.Assert(a.GetNumFlows() == int64(distinct), "one-flow-record-per-distinct-5-tuple")
	if seen[watch] {
		f1, ok1 := a.VerifFlowRecord(agg.Keys[watch].FlowKey())
		f2, ok2 := solo.VerifFlowRecord(agg.Keys[watch].FlowKey())
		sx.Assert(ok1 && ok2, "watched-flow-present")
		A, B := readState(f1.Record), readState(f2.Record)
		sx.Assert(sx.And(sideEq(A.common, B.common), sideEq(A.src, B.src), sideEq(A.dst, B.dst)), "other-flows-records-affected-this-flow")
		sx.Reach("non-interference")
	}
	if distinct > 1 {
		sx.Reach("several-flows")
	}
}

var Table = map[string]runner.Entry{
	"Check_Step":    {Setup: Setup, Fn: Check_Step},
	"Check_Reset":   {Setup: Setup, Fn: Check_Reset},
	"Check_History": {Setup: Setup, Fn: Check_History},
}
