// Package c16: set and record builders - length bookkeeping, equivalence of the
// three add paths, reuse after reset (property C16).
package c16

import (
	"time"

	"github.com/vmware/go-ipfix/pkg/entities"
	"github.com/vmware/go-ipfix/pkg/exporter"

	"verifh/common"
	"verifh/ref"
	"verifh/runner"
	"verifh/sx"
)

func Setup() {
	common.Setup()
	common.SetupFixedString()
}

var menu = [][]common.Kind{
	{},
	{common.KU16},
	{common.KString},
	{common.KU32, common.KOctetVar},
	{common.KMac, common.KAntreaS, common.KU64},
	{common.KIPv4, common.KRevU64, common.KU8},
}

// elemList draws an element list: template elements (empty values) or data
// elements with symbolic values; returns the reference encoding of the record body.
func elemList(kinds []common.Kind, isTemplate bool, tplID uint16) (mk func() []entities.InfoElementWithValue, enc []byte) {
	if isTemplate {
		enc = ref.U16(nil, tplID)
		enc = ref.U16(enc, uint16(len(kinds)))
		for _, k := range kinds {
			ie := common.IE(k)
			enc = ref.FieldSpec(enc, ie.ElementId, ie.Len, ie.EnterpriseId)
		}
		mk = func() []entities.InfoElementWithValue {
			out := make([]entities.InfoElementWithValue, len(kinds))
			for i, k := range kinds {
				e, err := entities.DecodeAndCreateInfoElementWithValue(common.IE(k), nil)
				sx.Assert(err == nil, "template-element")
				out[i] = e
			}
			return out
		}
		return
	}
	vals := make([]common.Val, len(kinds))
	for i, k := range kinds {
		n := 0
		if k.IsVar() {
			if sx.Tier() > 0 {
				n = []int{0, 1, 254, 255}[sx.Choose("len", 4)]
			} else {
				n = []int{0, 255}[sx.Choose("len", 2)]
			}
		}
		vals[i] = common.Draw(k, "value", n)
		enc = append(enc, vals[i].Enc...)
	}
	mk = func() []entities.InfoElementWithValue {
		out := make([]entities.InfoElementWithValue, len(vals))
		for i, v := range vals {
			out[i] = common.Element(v)
		}
		return out
	}
	return
}

func add(s entities.Set, path int, extra int, elems []entities.InfoElementWithValue, id uint16) error {
	switch path {
	case 0:
		return s.AddRecord(elems, id)
	case 1:
		return s.AddRecordWithExtraElements(elems, extra, id)
	}
	return s.AddRecordV2(elems, id)
}

// serialize runs the real serialiser over the set.
func serialize(s entities.Set) []byte {
	b, err := exporter.CreateIPFIXMsg(s, 1, 2, time.Unix(3, 0))
	sx.Assert(err == nil, "serialize")
	return b
}

// invariants that must hold after every operation
func invariants(s entities.Set, wantBody []byte) {
	sum := 0
	for _, r := range s.GetRecords() {
		sx.Assert(len(r.GetBuffer()) == r.GetRecordLength(), "record-buffer-is-reported-length")
		sum += r.GetRecordLength()
	}
	sx.Assert(s.GetSetLength() == 4+sum, "set-length-is-4-plus-records")
	b := serialize(s)
	sx.Assert(len(b) == 16+s.GetSetLength(), "serialized-length")
	sx.Assert(sx.EqBytes(b[20:], wantBody), "serialized-records-equal-reference")
}

// lengthInvariants: the length bookkeeping alone (no statement about the bytes
// of a field whose value cannot be encoded).
func lengthInvariants(s entities.Set) {
	sum := 0
	for _, r := range s.GetRecords() {
		sx.Assert(len(r.GetBuffer()) == r.GetRecordLength(), "record-buffer-is-reported-length")
		sum += r.GetRecordLength()
	}
	sx.Assert(s.GetSetLength() == 4+sum, "set-length-is-4-plus-records")
	b := serialize(s)
	sx.Assert(len(b) == 16+s.GetSetLength(), "serialized-length")
}

// oddAdd: optionally, before the regular adds, an add that goes wrong.
// (1) template set: a record whose element carries a value is refused by the
// copying paths - the set must be exactly as before.  (2) data set: a record
// with a value that cannot be encoded for its element (5-byte MAC address, 16-byte
// address in an IPv4 element) - it is added (the encoding error surfaces when
// the record is serialised, see C09), and the length bookkeeping must stay
// consistent.  The set is then reset and prepared again, so that the regular
// sequence continues from a clean state on both sets.
func oddAdd(set, fresh entities.Set, isT bool, id uint16, body []byte) {
	path := sx.Choose("oddPath", 2)
	if isT {
		elems := []entities.InfoElementWithValue{common.Element(common.Draw(common.KU16, "odd", 0)), common.Element(common.Draw(common.KU8, "odd", 0))}
		if sx.Choose("oddValuePosition", 2) == 1 {
			tpl, err := entities.DecodeAndCreateInfoElementWithValue(common.IE(common.KU32), nil)
			sx.Assert(err == nil, "template-element")
			elems[0] = tpl // the first element is fine, the second is refused
		}
		if add(set, path, 1, elems, id) != nil {
			// (a value that happens to be the zero value counts as empty and is accepted)
			sx.Assert(set.GetNumberOfRecords() == 0 && len(set.GetRecords()) == 0, "refused-add-left-a-record-in-the-set")
			invariants(set, body)
			sx.Reach("refused-add")
			return
		}
		lengthInvariants(set)
		set.ResetSet()
		sx.Assert(set.PrepareSet(entities.Template, id) == nil, "prepare-after-odd-add")
		return
	}
	bad := []common.Val{{K: common.KMac, Raw: []byte{1, 2, 3, 4, 5}}, {K: common.KIPv4, Raw: make([]byte, 16)}}[sx.Choose("illTypedValue", 2)]
	bad.Raw[0] = 0xfe // not an IPv4-mapped address
	elems := []entities.InfoElementWithValue{common.Element(common.Draw(common.KU16, "odd", 0)), common.Element(bad), common.Element(common.Draw(common.KU8, "odd", 0))}
	if add(set, path, 1, elems, id) == nil {
		sx.Assert(set.GetNumberOfRecords() == 1, "record-count")
		lengthInvariants(set)
		sx.Reach("ill-typed-add")
	} else {
		sx.Assert(set.GetNumberOfRecords() == 0, "refused-add-left-a-record-in-the-set")
		lengthInvariants(set)
	}
	set.ResetSet()
	t := entities.Data
	sx.Assert(set.PrepareSet(t, id) == nil, "prepare-after-odd-add")
}

type step struct {
	path  int
	extra int
	mk    func() []entities.InfoElementWithValue
	enc   []byte
}

// Check_Sequences: prefix operations, optional ResetSet, then a suffix of
// prepare/add/update operations applied both to the reused set and to a fresh
// NewSet(false): lengths and bytes must agree after every operation.
func Check_Sequences() {
	maxAdds := sx.Param("maxAdds", 2)
	set := entities.NewSet(false)
	// prefix: nothing, or prepare + one add (then the set is dirty)
	dirty := sx.Choose("prefix", 3)
	if dirty > 0 {
		isT := dirty == 1
		t := entities.Data
		if isT {
			t = entities.Template
		}
		sx.Assert(set.PrepareSet(t, 777) == nil, "prefix-prepare")
		mk, enc := elemList(menu[1], isT, 777)
		ppath := dirty // which add path made the set dirty is tied to the kind of prefix
		sx.Assert(add(set, ppath, 1, mk(), 777) == nil, "prefix-add")
		invariants(set, enc)
		set.UpdateLenInHeader()
		set.ResetSet()
		sx.Assert(set.GetSetLength() == 4, "reset-length")
		sx.Assert(len(set.GetRecords()) == 0, "reset-records")
		sx.Reach("reset")
	}
	fresh := entities.NewSet(false)

	isT := sx.Choose("type", 2) == 0
	t := entities.Data
	if isT {
		t = entities.Template
	}
	id := sx.U16("id")
	sx.Assume(id >= 256)
	sx.Assert(set.PrepareSet(t, id) == nil, "prepare")
	sx.Assert(fresh.PrepareSet(t, id) == nil, "prepare-fresh")
	sx.Assert(sx.EqBytes(set.GetHeaderBuffer(), fresh.GetHeaderBuffer()), "reused-set-header-differs-from-new-set")
	var body []byte
	nadds := sx.Range("adds", 1, maxAdds)
	updAt := sx.Choose("updateAfter", nadds+1)             // UpdateLenInHeader after this many adds (and again at the end)
	rePrepareAt := sx.Choose("prepareAgainAfter", nadds+1) // == nadds: never
	for i := 0; i < nadds; i++ {
		if i == updAt {
			set.UpdateLenInHeader()
			fresh.UpdateLenInHeader()
		}
		if i > 0 && i == rePrepareAt {
			// preparing again (e.g. to change the set id) keeps the records and their accounting
			id = sx.U16("id2")
			sx.Assume(id >= 256)
			sx.Assert(set.PrepareSet(t, id) == nil, "prepare-again")
			sx.Assert(fresh.PrepareSet(t, id) == nil, "prepare-again-fresh")
			invariants(set, body)
			sx.Reach("prepared-again")
		}
		kinds := menu[sx.Choose("elements", len(menu))]
		path := sx.Choose("path", 3)
		extra := 0
		if path == 1 {
			if sx.Tier() > 0 {
				extra = sx.Range("extra", 0, 3)
			} else {
				extra = 2 * sx.Choose("extra", 2)
			}
		}
		mk, enc := elemList(kinds, isT, id)
		sx.Assert(add(set, path, extra, mk(), id) == nil, "add")
		sx.Assert(add(fresh, path, extra, mk(), id) == nil, "add-fresh")
		body = append(body, enc...)
		invariants(set, body)
		sx.Assert(set.GetSetLength() == fresh.GetSetLength(), "reused-set-length-differs-from-new-set")
		sx.Assert(sx.EqBytes(set.GetHeaderBuffer(), fresh.GetHeaderBuffer()), "reused-set-header-differs-from-new-set")
		sx.Assert(sx.EqBytes(serialize(set), serialize(fresh)), "reused-set-bytes-differ-from-new-set")
		sx.Assert(set.GetNumberOfRecords() == fresh.GetNumberOfRecords(), "reused-set-record-count")
	}
	set.UpdateLenInHeader()
	fresh.UpdateLenInHeader()
	a, b := serialize(set), serialize(fresh)
	sx.Assert(sx.EqBytes(a, b), "reused-set-bytes-differ-from-new-set")
	sx.Assert(int(ref.GetU16(a, 18)) == set.GetSetLength(), "header-length-field-after-update")
	wantID := id
	if isT {
		wantID = 2
	}
	sx.Assert(ref.GetU16(a, 16) == wantID, "set-id")
	sx.Reach("done")
}

// Check_OddAdds: on a new or a reused set, an add that goes wrong (see oddAdd),
// then one regular add through each path: the set behaves like a fresh one.
func Check_OddAdds() {
	set := entities.NewSet(false)
	if sx.Choose("reusedSet", 2) == 1 {
		sx.Assert(set.PrepareSet(entities.Data, 777) == nil, "prefix-prepare")
		mk, _ := elemList(menu[1], false, 777)
		sx.Assert(add(set, 0, 0, mk(), 777) == nil, "prefix-add")
		set.UpdateLenInHeader()
		set.ResetSet()
	}
	fresh := entities.NewSet(false)
	isT := sx.Choose("type", 2) == 0
	t := entities.Data
	if isT {
		t = entities.Template
	}
	id := sx.U16("id")
	sx.Assume(id >= 256)
	sx.Assert(set.PrepareSet(t, id) == nil, "prepare")
	sx.Assert(fresh.PrepareSet(t, id) == nil, "prepare-fresh")
	oddAdd(set, fresh, isT, id, nil)
	sx.Assert(sx.EqBytes(set.GetHeaderBuffer(), fresh.GetHeaderBuffer()), "reused-set-header-differs-from-new-set")
	path := sx.Choose("path", 3)
	mk, enc := elemList(menu[1], isT, id)
	sx.Assert(add(set, path, 1, mk(), id) == nil, "add")
	sx.Assert(add(fresh, path, 1, mk(), id) == nil, "add-fresh")
	invariants(set, enc)
	sx.Assert(set.GetNumberOfRecords() == 1 && fresh.GetNumberOfRecords() == 1, "record-count-after-a-refused-add")
	set.UpdateLenInHeader()
	fresh.UpdateLenInHeader()
	sx.Assert(sx.EqBytes(serialize(set), serialize(fresh)), "reused-set-bytes-differ-from-new-set")
	sx.Reach("odd-done")
}

// Check_AddPaths: the same (type, id, elements) through AddRecord,
// AddRecordWithExtraElements(k) and AddRecordV2 on three fresh sets.
func Check_AddPaths() {
	isT := sx.Choose("type", 2) == 0
	t := entities.Data
	if isT {
		t = entities.Template
	}
	id := sx.U16("id")
	sx.Assume(id >= 256)
	nrec := sx.Range("records", 1, 2)
	var sets [3]entities.Set
	for i := range sets {
		sets[i] = entities.NewSet(false)
		sx.Assert(sets[i].PrepareSet(t, id) == nil, "prepare")
	}
	k := []int{0, 1, 3}[sx.Choose("extra", 3)]
	reuse := sx.Choose("callerReusesItsSlice", 2) == 1
	maxElems := 2
	if sx.Tier() > 0 {
		maxElems = 3
	}
	for r := 0; r < nrec; r++ {
		var kinds []common.Kind
		if r == 0 {
			n := sx.Range("nelems", 0, maxElems)
			kinds = make([]common.Kind, n)
			pool := []common.Kind{common.KU8, common.KU16, common.KU32, common.KU64, common.KMac, common.KIPv4, common.KString, common.KOctetVar, common.KAntreaS, common.KRevU64, common.KUserFixedStr}
			for i := range kinds {
				kinds[i] = pool[sx.Choose("kind", len(pool))]
			}
		} else {
			kinds = menu[4]
		}
		mk, _ := elemList(kinds, isT, id)
		e0, e1 := mk(), mk()
		sx.Assert(sets[0].AddRecord(e0, id) == nil, "AddRecord")
		sx.Assert(sets[1].AddRecordWithExtraElements(e1, k, id) == nil, "AddRecordWithExtraElements")
		sx.Assert(sets[2].AddRecordV2(mk(), id) == nil, "AddRecordV2")
		if reuse && len(e0) > 0 {
			// the copying paths copy: the caller may reuse its slice for the next
			// record straight away (the slice-adopting path keeps it, by contract)
			other := e0[len(e0)-1]
			for i := range e0 {
				e0[i], e1[i] = other, other
			}
			e0[len(e0)-1], e1[len(e1)-1] = nil, nil
		}
	}
	for i := range sets {
		sets[i].UpdateLenInHeader()
	}
	a, b, c := serialize(sets[0]), serialize(sets[1]), serialize(sets[2])
	sx.Assert(sx.EqBytes(a, b), "AddRecordWithExtraElements-differs-from-AddRecord")
	sx.Assert(sx.EqBytes(a, c), "AddRecordV2-differs-from-AddRecord")
	sx.Assert(sets[0].GetSetLength() == sets[1].GetSetLength() && sets[0].GetSetLength() == sets[2].GetSetLength(), "set-lengths-differ")
	sx.Reach("compared")
}

var Table = map[string]runner.Entry{
	"Check_Sequences": {Setup: Setup, Fn: Check_Sequences},
	"Check_OddAdds":   {Setup: Setup, Fn: Check_OddAdds},
	"Check_AddPaths":  {Setup: Setup, Fn: Check_AddPaths},
}
