// Package c00 is the engine's self-test harness (not a property).
package c00

import (
	"bytes"
	"encoding/binary"
	"errors"
	"fmt"
	"io"
	"sort"
	"sync"
	"sync/atomic"

	"verifh/ref"
	"verifh/sx"
)

func Setup() {}

// Check_Arith: simple obligations over bit-vectors, a branch and a buffer.
func Check_Arith() {
	x := sx.U32("x")
	y := sx.U16("y")
	b := ref.U32(nil, x)
	b = ref.U16(b, y)
	sx.Assert(binary.BigEndian.Uint32(b) == x, "be32")
	sx.Assert(binary.BigEndian.Uint16(b[4:]) == y, "be16")
	if x > 1000 {
		sx.Reach("big")
		sx.Assert(x+1 != 5, "nowrap5")
	} else {
		sx.Reach("small")
		sx.Assert(x*2 <= 2000, "mul")
	}
	buf := bytes.NewBuffer(b)
	var v uint32
	err := binary.Read(buf, binary.BigEndian, &v)
	sx.Assert(err == nil, "readok")
	sx.Assert(v == x, "read32")
	sx.Observe("v", v, y, b)
}

// Check_Bug must produce a counterexample (x == 77).
func Check_Bug() {
	x := sx.U32("x")
	n := sx.Range("n", 0, 2)
	sx.Assert(x != 77+uint32(n), "not77")
	sx.Reach("end")
}

type myErr struct{ code int }

func (e *myErr) Error() string { return "myErr" }

// Check_StdModels exercises the engine's models of reflect/unsafe-based
// standard-library facilities; the translator validation compares the
// observations with the native run.
func Check_StdModels() {
	a, b, c := sx.U8("a"), sx.U8("b"), sx.U8("c")
	s := []uint8{a, b, c}
	sort.Slice(s, func(i, j int) bool { return s[i] < s[j] })
	sx.Assert(s[0] <= s[1] && s[1] <= s[2], "sorted")
	sx.Assert(int(s[0])+int(s[1])+int(s[2]) == int(a)+int(b)+int(c), "permutation-sum")
	var err error = fmt.Errorf("wrapped: %w", &myErr{code: int(a)})
	var me *myErr
	sx.Assert(errors.As(err, &me) && me.code == int(a), "errors.As")
	sx.Assert(!errors.Is(err, io.EOF), "errors.Is")
	var m sync.Map
	m.Store("k", b)
	v, ok := m.Load("k")
	sx.Assert(ok && v.(uint8) == b, "sync.Map")
	_, ok = m.Load("other")
	sx.Assert(!ok, "sync.Map-miss")
	var av atomic.Value
	av.Store(c)
	sx.Assert(av.Load().(uint8) == c, "atomic.Value")
	var ai atomic.Int64
	ai.Add(int64(a))
	ai.Add(5)
	sx.Assert(ai.Load() == int64(a)+5, "atomic.Int64")
	sx.Observe("sorted", s, me.code, v, ai.Load())
	sx.Reach("models")
}

// Check_UTF8: ranging over a string of symbolic bytes decodes UTF-8 as the
// runtime does (the engine's decoder against utf8.DecodeRuneInString, and,
// through the translator validation, against the native range loop).
func Check_UTF8() {
	str := sx.Str("s", 3)
	pos := 0
	n := 0
	for i, r := range str {
		sx.Assert(i >= pos, "rune-offset")
		sx.Assert(r <= 0x10FFFF && !(r >= 0xD800 && r <= 0xDFFF), "rune-range")
		// a rune decoded from k bytes lies in the range k bytes can express
		if r >= 0x800 && r != 0xFFFD {
			sx.Assert(i == 0 && r <= 0xFFFF, "three-byte-rune")
		}
		pos = i + 1
		n++
		sx.Observe("rune", i, r)
	}
	sx.Assert(n >= 1 && n <= 3, "rune-count")
	if n < 3 {
		sx.Reach("multi-byte")
	}
	sx.Reach("ascii-or-not")
}
