// Package c00 is the engine's self-test harness (not a property).
package c00

import (
	"bytes"
	"encoding/binary"

	"verifh/ref"
	"verifh/sx"
)

func Setup() {}

// Check_Arith: simple obligations over bit-vectors, a branch and a buffer.
func Check_Arith() {
	x := sx.U32("x")
	y := sx.U16("y")
	b := ref.U32(nil, x)
	b = ref.U16(b, y)
	sx.Assert(binary.BigEndian.Uint32(b) == x, "be32")
	sx.Assert(binary.BigEndian.Uint16(b[4:]) == y, "be16")
	if x > 1000 {
		sx.Reach("big")
		sx.Assert(x+1 != 5, "nowrap5")
	} else {
		sx.Reach("small")
		sx.Assert(x*2 <= 2000, "mul")
	}
	buf := bytes.NewBuffer(b)
	var v uint32
	err := binary.Read(buf, binary.BigEndian, &v)
	sx.Assert(err == nil, "readok")
	sx.Assert(v == x, "read32")
	sx.Observe("v", v, y, b)
}

// Check_Bug must produce a counterexample (x == 77).
func Check_Bug() {
	x := sx.U32("x")
	n := sx.Range("n", 0, 2)
	sx.Assert(x != 77+uint32(n), "not77")
	sx.Reach("end")
}
