// Package c02: exporter output is well-formed RFC 7011 as judged by an
// independent encoder/decoder (property C02).
package c02

import (
	"github.com/vmware/go-ipfix/pkg/entities"
	"github.com/vmware/go-ipfix/pkg/exporter"
	"github.com/vmware/go-ipfix/pkg/registry"

	"verifh/common"
	"verifh/ref"
	"verifh/runner"
	"verifh/sx"
)

func Setup() { common.Setup() }

// Check_WellFormed: a template message and a data message produced by the real
// exporter are byte-identical to the reference (RFC-derived) encoding of the
// same template and values: version 10, header length = bytes written, one
// set covering the rest, set id 2 / template id, field specifiers with the
// enterprise bit and PEN exactly for enterprise elements, big-endian fixed
// fields and length-prefixed variable fields.
func Check_WellFormed() {
	maxFields, maxRecs := 2, 2
	if sx.Tier() > 0 {
		maxFields, maxRecs = 3, 3
	}
	maxFields = sx.Param("maxFields", maxFields)
	kinds := common.DrawKindsTiered(maxFields)
	if len(kinds) >= 3 {
		maxRecs = 2
	}
	tplID := sx.U16("tplID")
	sx.Assume(tplID >= 256)
	domain := sx.U32("domain")
	seq0 := sx.U32("seq0")

	conn := &common.FakeConn{}
	ep := exporter.VerifNewExportingProcess(conn, domain)
	ep.VerifSetSeq(seq0)

	n, err := ep.SendSet(common.TemplateSet(tplID, kinds))
	sx.Assert(err == nil, "template-send-ok")
	sx.Assert(len(conn.Writes) == 1, "template-one-write")
	w := conn.Writes[0]
	sx.Assert(n == len(w), "template-bytes-reported")
	sx.Assert(len(w) >= 20, "template-min-length")
	want := common.RefMessage(ref.GetU32(w, 4), seq0, domain, common.RefTemplateSet(tplID, kinds))
	sx.Assert(sx.EqBytes(w, want), "template-message-equals-reference")
	sx.Reach("template-sent")

	nrec := sx.Range("nrec", 1, maxRecs)
	recs := common.DrawRecords(kinds, nrec)
	n, err = ep.SendSet(common.DataSet(tplID, recs))
	sx.Assert(err == nil, "data-send-ok")
	sx.Assert(len(conn.Writes) == 2, "data-one-write")
	w = conn.Writes[1]
	sx.Assert(n == len(w), "data-bytes-reported")
	want = common.RefMessage(ref.GetU32(w, 4), seq0+uint32(nrec), domain, common.RefDataSet(tplID, recs))
	sx.Assert(sx.EqBytes(w, want), "data-message-equals-reference")
	sx.Reach("data-sent")
	if !sx.Symbolic() {
		o := append([]byte{}, w...)
		o[4], o[5], o[6], o[7] = 0, 0, 0, 0 // export time is the environment's
		sx.Observe("msg", o)
	}
}

// Check_RegistrySweep: every element of the loaded registries (IANA, reverse,
// Antrea, user enterprise) as a one-field template with a symbolic value.
func Check_RegistrySweep() {
	ents := []uint32{registry.IANAEnterpriseID, registry.IANAReversedEnterpriseID, registry.AntreaEnterpriseID, common.UserEnterprise, common.UserEnterpriseBig}
	ent := ents[sx.Choose("enterprise", len(ents))]
	maxID := 520
	id := uint16(sx.Range("elementID", 0, maxID))
	ie, err := registry.GetInfoElementFromID(id, ent)
	if err != nil {
		sx.Reach("absent")
		return
	}
	v, ok := common.DrawForIE(ie, "value")
	if !ok {
		// unsupported data type (lists, micro/nanoseconds, invalid): the library
		// refuses to build the template element
		_, err := entities.DecodeAndCreateInfoElementWithValue(ie, nil)
		sx.Assert(err != nil, "unsupported-type-refused")
		sx.Reach("unsupported-type")
		return
	}
	domain := sx.U32("domain")
	conn := &common.FakeConn{}
	ep := exporter.VerifNewExportingProcess(conn, domain)
	const tplID = 300
	ts, err := entities.MakeTemplateSet(tplID, []*entities.InfoElement{ie})
	sx.Assert(err == nil, "make-template")
	_, err = ep.SendSet(ts)
	sx.Assert(err == nil, "template-send-ok")
	w := conn.Writes[0]
	tset := ref.U16(nil, 2)
	tset = ref.U16(tset, 0)
	tset = ref.U16(tset, tplID)
	tset = ref.U16(tset, 1)
	tset = ref.FieldSpec(tset, ie.ElementId, ie.Len, ie.EnterpriseId)
	tset[3] = byte(len(tset))
	sx.Assert(sx.EqBytes(w, common.RefMessage(ref.GetU32(w, 4), 0, domain, tset)), "template-message-equals-reference")

	ds := entities.NewSet(false)
	sx.Assert(ds.PrepareSet(entities.Data, tplID) == nil, "prepare")
	sx.Assert(ds.AddRecord([]entities.InfoElementWithValue{common.ElementForIE(ie, v)}, tplID) == nil, "add")
	_, err = ep.SendSet(ds)
	sx.Assert(err == nil, "data-send-ok")
	w = conn.Writes[1]
	dset := ref.U16(nil, tplID)
	dset = ref.U16(dset, 0)
	dset = append(dset, v.Enc...)
	dset[2], dset[3] = byte(len(dset)>>8), byte(len(dset))
	sx.Assert(sx.EqBytes(w, common.RefMessage(ref.GetU32(w, 4), 1, domain, dset)), "data-message-equals-reference")
	sx.Reach("swept")
}

// Check_LargeMessage: messages around the 65535-byte limit: whatever is put on
// the wire has a header length equal to the bytes sent and is the reference
// encoding; a set that does not fit is not put on the wire at all.
func Check_LargeMessage() {
	domain := sx.U32("domain")
	conn := &common.FakeConn{}
	ep := exporter.VerifNewExportingProcess(conn, domain)
	const tplID = 300
	ks := []common.Kind{common.KOctetVar}
	_, err := ep.SendSet(common.TemplateSet(tplID, ks))
	sx.Assert(err == nil, "template-send-ok")
	total := sx.Range("messageSize", 65510, 65545)
	recs := [][]common.Val{{common.Draw(common.KOctetVar, "value", total-23)}}
	n, err := ep.SendSet(common.DataSet(tplID, recs))
	if len(conn.Writes) == 1 {
		sx.Assert(err != nil, "nothing-written-but-no-error")
		sx.Assert(total > 65535, "fitting-message-not-sent")
		sx.Reach("not-sent")
		return
	}
	sx.Assert(len(conn.Writes) == 2, "one-write")
	w := conn.Writes[1]
	sx.Assert(len(w) <= 65535, "message-longer-than-65535-on-the-wire")
	sx.Assert(int(ref.GetU16(w, 2)) == len(w), "header-length-is-bytes-sent")
	sx.Assert(int(ref.GetU16(w, 18)) == len(w)-16, "set-length-covers-the-rest")
	sx.Assert(n == len(w), "data-bytes-reported")
	want := common.RefMessage(ref.GetU32(w, 4), 1, domain, common.RefDataSet(tplID, recs))
	sx.Assert(sx.EqBytes(w, want), "data-message-equals-reference")
	sx.Reach("sent")
}

var Table = map[string]runner.Entry{
	"Check_LargeMessage":  {Setup: Setup, Fn: Check_LargeMessage},
	"Check_WellFormed":    {Setup: Setup, Fn: Check_WellFormed},
	"Check_RegistrySweep": {Setup: Setup, Fn: Check_RegistrySweep},
}
