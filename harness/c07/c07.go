// Package c07: inter-node correlation - withheld until both sides seen, merged
// field-complete (property C07).
package c07

import (
	"github.com/vmware/go-ipfix/pkg/entities"
	"github.com/vmware/go-ipfix/pkg/intermediate"

	"verifh/agg"
	"verifh/common"
	"verifh/runner"
	"verifh/sx"
)

func Setup() {
	common.Setup()
	// configuration (as the library's own tests do): one retry, so that the
	// retry-then-drop sequence fits the quick history bound
	intermediate.MaxRetries = 1
}

type sideRec struct {
	r      agg.Rec
	isSrc  bool
	rich   bool // namespace / node name non-empty
	hasCIP bool
}

func strField(rec entities.Record, name string) string {
	e, _, ok := rec.GetInfoElementWithValue(name)
	if !ok {
		panic("missing " + name)
	}
	return e.GetStringValue()
}

// Check_History: up to k events from {record from the source node, record from
// the destination node, expiry scan after the deadlines} on one flow whose
// flow type and rule actions are symbolic bytes.
func Check_History() {
	k := 3
	if sx.Tier() > 0 {
		k = 4
	}
	history(sx.Param("k", k), nil)
}

// Check_HistoryAfterRetry: one level deeper for the histories that exercise
// the retry budget: they start with a record of one node followed by an
// expiry scan, then 2 (quick) / 3 (thorough) free events.
func Check_HistoryAfterRetry() {
	first := sx.Choose("firstNode", 2)
	history(4+sx.Tier(), []int{first, 2})
}

func history(k int, forced []int) {
	sx.Note("C07: all records of one flow carry the same flow type and rule actions (the statement is per flow)")
	a := agg.New(false)
	key := agg.Keys[0]
	flowType := sx.U8("flowType")
	egress := sx.U8("egressRuleAction")
	ingress := sx.U8("ingressRuleAction")
	// what the statement says needs correlation
	required := flowType == 2 && egress != 2 && egress != 3 && ingress != 3
	if required {
		sx.Reach("correlation-required")
	} else {
		sx.Reach("no-correlation")
	}
	seenSrc, seenDst := false, false
	// the destination node's exporter may list the elements of its records in
	// another order than the source node's (chosen once, when it first reports)
	dstOrder := -1
	// the merge combines the record that created the flow with the first record
	// of the other node (the one that triggers the correlation)
	var lastSrc, lastDst *sideRec
	exported := 0
	retries := 0
	held := false
	callback := func(fk intermediate.FlowKey, r *intermediate.AggregationFlowRecord) error {
		exported++
		if required {
			sx.Assert(seenSrc && seenDst, "exported-before-both-sides-seen")
			sx.Assert(a.AreCorrelatedFieldsFilled(*r), "exported-without-being-marked-filled")
		}
		return nil
	}
	for step := 0; step < k; step++ {
		var ev int
		if step < len(forced) {
			ev = forced[step]
		} else {
			ev = sx.Choose("event", 3)
		}
		if ev == 2 {
			// expiry scan after every deadline has passed
			a.VerifShiftDeadlines(-(agg.InactiveTimeout + agg.Tick))
			before := exported
			sx.Assert(a.ForAllExpiredFlowRecordsDo(callback) == nil, "scan-no-error")
			if !held {
				sx.Assert(exported == before, "callback-without-flow")
				continue
			}
			ready := !required || (seenSrc && seenDst)
			if ready {
				sx.Assert(exported == before+1, "ready-flow-not-exported-at-deadline")
				held = false // inactive expiry removes
				seenSrc, seenDst = false, false
				retries = 0
				sx.Assert(a.GetNumFlows() == 0, "flow-kept-after-inactive-expiry")
				sx.Reach("exported")
			} else {
				sx.Assert(exported == before, "uncorrelated-flow-exported")
				retries++
				if retries > intermediate.MaxRetries {
					sx.Assert(a.GetNumFlows() == 0, "uncorrelated-flow-kept-beyond-max-retries")
					held = false
					seenSrc, seenDst = false, false
					retries = 0
					sx.Reach("dropped-after-retries")
				} else {
					sx.Assert(a.GetNumFlows() == 1, "uncorrelated-flow-dropped-before-max-retries")
					sx.Reach("retried")
				}
			}
			continue
		}
		s := &sideRec{isSrc: ev == 0}
		// the record's optional correlated fields: all empty / zero, or all set
		// (the merge treats each field on its own: the two extremes are explored)
		// (independent choices per field were 0.22 M histories and 11 minutes at depth 4)
		if sx.Param("independentFields", 0) == 1 {
			s.rich = sx.Choose("namespaceAndNodeNonEmpty", 2) == 1
			s.hasCIP = sx.Choose("clusterIPNonZero", 2) == 1
		} else {
			s.rich = sx.Choose("optionalCorrelatedFieldsSet", 2) == 1
			s.hasCIP = s.rich
		}
		r := agg.Rec{Key: key, FlowType: flowType, EgressAction: egress, IngressAction: ingress, TCPState: "ESTABLISHED", End: sx.U32("flowEndSeconds")} // the two nodes' clocks and export times are not ordered
		r.ServicePort = sx.U16("servicePort")
		r.IngressPriority = sx.I32("ingressPriority")
		if s.hasCIP {
			r.ClusterIP = []byte{10, 96, 0, 1}
		}
		if s.isSrc {
			r.SrcPod = "pod1"
			if s.rich {
				r.SrcNS, r.SrcNode = "ns1", "node1"
			}
		} else {
			if dstOrder < 0 {
				dstOrder = sx.Choose("destinationNodeListsElementsInAnotherOrder", 2)
			}
			r.AltOrder = dstOrder == 1
			r.DstPod = "pod2"
			if s.rich {
				r.DstNS, r.DstNode = "ns2", "node2"
			}
		}
		s.r = r
		sx.Assert(a.AggregateMsgByFlowKey(agg.Message(r)) == nil, "aggregate-no-error")
		held = true
		if s.isSrc {
			if !seenSrc {
				lastSrc = s
			}
			seenSrc = true
		} else {
			if !seenDst {
				lastDst = s
			}
			seenDst = true
		}
		fr, ok := a.VerifFlowRecord(key.FlowKey())
		sx.Assert(ok, "flow-held")
		sx.Assert(a.GetNumFlows() == 1, "one-flow")
		if !required {
			sx.Assert(fr.ReadyToSend, "flow-without-correlation-not-ready-at-once")
			continue
		}
		if !(seenSrc && seenDst) {
			sx.Assert(!fr.ReadyToSend, "ready-before-both-sides-seen")
			sx.Reach("withheld")
			continue
		}
		// both sides seen: merged record is field-complete and marked filled
		sx.Assert(fr.ReadyToSend, "not-ready-although-both-sides-seen")
		sx.Assert(a.AreCorrelatedFieldsFilled(*fr), "not-marked-filled")
		m := fr.Record
		sx.Assert(strField(m, "sourcePodName") == "pod1" && strField(m, "destinationPodName") == "pod2", "merged-pod-names")
		if lastSrc.rich {
			sx.Assert(strField(m, "sourcePodNamespace") == "ns1" && strField(m, "sourceNodeName") == "node1", "merged-source-strings")
		}
		if lastDst.rich {
			sx.Assert(strField(m, "destinationPodNamespace") == "ns2" && strField(m, "destinationNodeName") == "node2", "merged-destination-strings")
		}
		// numeric fields: a non-zero value of either side survives
		e, _, _ := m.GetInfoElementWithValue("destinationServicePort")
		sp := e.GetUnsigned16Value()
		a1, a2 := lastSrc.r.ServicePort, lastDst.r.ServicePort
		sx.Assert(sx.And(sx.Or(sp == a1, sp == a2), sx.Implies(sx.Or(a1 != 0, a2 != 0), sp != 0)), "merged-service-port")
		e, _, _ = m.GetInfoElementWithValue("ingressNetworkPolicyRulePriority")
		ip := e.GetSigned32Value()
		p1, p2 := lastSrc.r.IngressPriority, lastDst.r.IngressPriority
		sx.Assert(sx.And(sx.Or(ip == p1, ip == p2), sx.Implies(sx.Or(p1 != 0, p2 != 0), ip != 0)), "merged-ingress-priority")
		e, _, _ = m.GetInfoElementWithValue("destinationClusterIPv4")
		cip := e.GetIPAddressValue()
		if lastSrc.hasCIP || lastDst.hasCIP {
			sx.Assert(len(cip) == 4 && cip[0] == 10 && cip[3] == 1, "merged-cluster-ip")
		}
		sx.Reach("merged")
	}
}

var Table = map[string]runner.Entry{
	"Check_History":           {Setup: Setup, Fn: Check_History},
	"Check_HistoryAfterRetry": {Setup: Setup, Fn: Check_HistoryAfterRetry},
}
