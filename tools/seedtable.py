#!/usr/bin/env python3
"""Regenerates the seeded-changes table of DESIGN.md section 14 from
/verif/seeded/*/meta.json and result.json (between the markers)."""
import json, glob, os, re
notes = {
 "C02-b": "added `Check_LargeMessage`", "C04-b": "added template variant C (same id/length, other enterprise)",
 "C07-a": "end times made symbolic", "C08-a": "environment draws kept out of native replays", "C08-b": "zero-record sets added",
 "C10-a": "added the deeper schedule family", "C11-a": "`errors.Is` model fixed", "C13-a": "schedule exploration built",
 "C14-b": "schedule exploration built", "C16-a": "header compared after every op", "C16-b": "fixed-length user string element",
 "C17-a": "older-template option", "C18-a": "IsIPv6 input added", "C19-a": "MarshalAppend modelled, 300-byte marshal length",
 "C02-c": "user enterprise above 65535 added to the pool", "C04-c": "sync/atomic pointer intrinsics", "C04-d": "string template variants; world rebuilt after setup-state mutation",
 "C07-d": "added the retry history family", "C08-c": "fixed-clock variant (600 ms into the second)", "C08-d": "refresh step added",
 "C10-d": "replacement with another definition added", "C11-d": "live second connection of the same domain", "C15-c": "per-path decision cap (engine ran out of memory before)",
 "C15-d": "added `Check_IncrementalRecord`", "C16-d": "re-prepare operation added", "C17-c": "older template in keep/drop mode",
 "C17-d": "added `Check_KeepOverTCP`", "C18-d": "SystemCertPool / CertPool.Clone modelled", "C19-d": "UnmarshalOptions modelled, merge flag checked",
 "C12-b": "rendezvous semantics for select-send on unbuffered channels; 2 preemptions for UDP in the quick tier",
 "C12-c": "real `Start()` on a stub UDP socket (`Check_StartUDP`)", "C12-d": "client that disconnects mid-message; hang reported as violation",
 "C01-f": "TCP stream transport and 4073/4074/5000-byte values in `Check_MaxMessage`", "C02-e": "caught by C14's lockset check (shared buffer written by the refresh and the send goroutine)",
 "C02-g": "symbolic UTF-8 decoding in the engine, 2-byte strings in the quick tier, wall-clock budget (the check ran 25 min without a verdict before)",
 "C03-f": "runt length fields (0, 15) in C11, hang reported as violation", "C03-g": "caught by C17 after the older template with the same ids and other lengths was added",
 "C04-e": "added `Check_HistoryAfterUse`; a decoder that hangs is a violation", "C04-f": "zero-field template message kind",
 "C04-g": "NOT DETECTED, by design: the change adds multi-record template sets, which the pinned code ignores; the property does not define them (see text)",
 "C05-e": "caught by C06 after flows are created by one multi-record message", "C05-g": "no-correlation flavours (to/from external, denied inter-node) and the creating record checked",
 "C06-f": "second key is an inter-node flow denied at egress", "C06-g": "added `Check_RecordOnWaitingFlow`", "C07-e": "destination node lists its elements in another order",
 "C07-f": "NOT DETECTED, by design: a record with neither pod name has no reporting node in the property or in the pinned code (see text)",
 "C08-e": "one set object reused for all data sets", "C08-f": "connection that accepts part of a Write", "C08-g": "added `Check_ConfiguredDomain` on the real `InitExportingProcess` (`sx.RegisterConn`)",
 "C09-f": "application reads the record buffer first / retries the set", "C09-g": "caught by C02 (255-byte string)", "C10-e": "added `Check_ScheduleDTLS`",
 "C10-g": "(stale harness copy in the first sweep)", "C11-e": "read-deadline timeouts at segment boundaries in the in-memory connection", "C11-f": "`net.ErrClosed` and other sentinel errors preset",
 "C11-g": "added `Check_LargeMessage`", "C12-e": "NOT DETECTED: TLS server path, outside the claimed slice", "C12-g": "engine: a blocked select re-registering as receiver no longer counts as progress (the deadlock was never recognised)",
 "C13-e": "callbacks that modify the record", "C13-g": "TryLock modelled; lock holders preemptible when the module uses TryLock; query results compared", "C14-e": "virtual time for tickers, `Check_RefreshInterval`",
 "C14-f": "real background goroutines with harness-fired tickers, `Check_Lifecycle`", "C14-g": "refresh goroutine of the real Init under the access monitor", "C15-f": "caught by C03",
 "C16-e": "added `Check_OddAdds`", "C16-f": "added `Check_OddAdds`", "C16-g": "caller overwrites its slice after the copying adds", "C18-f": "validity instant of the TLS configuration", "C18-g": "CA rotation on one settings object",
 "C19-e": "second message of a stream uses another element order", "C19-f": "16-byte IPv4 form; netip markers preset", "C20-e": "repeated element in the record", "C20-f": "added `Check_QueryAfterChange`; lazily created globals no longer leak between paths",
 "C04-i": "data sets without records added (fourth round)", "C06-h": "added `Check_RejectedRecord` (fourth round)", "C06-i": "retries already counted for the waiting flow (fourth round)",
 "C13-h": "pair of expiry scans with a callback that fails once (fourth round)", "C13-i": "first record of a new flow lacking flowStartSeconds in the monitored operations (fourth round)",
 "C14-h": "NOT DETECTED: a Close that returns while another closer is still closing; the pinned code has the same window without background goroutines, so the harness cannot demand more (see text)",
 "C14-i": "NOT DETECTED: needs a write that is blocked inside the socket while the check goroutine runs; the in-memory connection has no scheduling points inside Read/Write (see text)",
 "C20-c": "out-of-range counts added", "C20-d": "float, boolean and address fields in the rendered record",
}
rows = []
for d in sorted(glob.glob('/verif/seeded/*')):
    sid = os.path.basename(d)
    m = json.load(open(d + '/meta.json'))
    r = json.load(open(d + '/result.json')) if os.path.exists(d + '/result.json') else {}
    det = []
    for p, v in sorted(r.items()):
        if v['exit'] != 1:
            continue
        lab = ''
        for l in v['lines']:
            mm = re.search(r'(assert:[^ ]+(?: [^ ]+)?|panic:|hang:)', l)
            if mm and not lab:
                lab = mm.group(1).rstrip(' at')
        if not lab and any('race' in l for l in v['lines']):
            lab = 'lockset'
        det.append(f"{p} {lab}".strip())
    summ = re.sub(r'\s+', ' ', m['summary'])[:150].replace('|', '/')
    rows.append(f"| {sid} | {summ} | {'; '.join(det) or 'not detected'} | {notes.get(sid, '-')} |")
table = "| seed | change (first 150 characters of the author's summary) | caught by (quick tier; first assertion) | strengthened after a miss |\n|---|---|---|---|\n" + "\n".join(rows)
s = open('/verif/DESIGN.md').read()
a, b = s.index('<!-- seedtable:begin -->'), s.index('<!-- seedtable:end -->')
s = s[:a] + '<!-- seedtable:begin -->\n' + table + '\n' + s[b:]
open('/verif/DESIGN.md', 'w').write(s)
print(len(rows), 'seeds;', sum('| not detected |' in r for r in rows), 'not detected')
