#!/usr/bin/env python3
"""Regenerates the seeded-changes table of DESIGN.md section 14 from
/verif/seeded/*/meta.json and result.json (between the markers)."""
import json, glob, os, re
notes = {
 "C02-b": "added `Check_LargeMessage`", "C04-b": "added template variant C (same id/length, other enterprise)",
 "C07-a": "end times made symbolic", "C08-a": "environment draws kept out of native replays", "C08-b": "zero-record sets added",
 "C10-a": "added the deeper schedule family", "C11-a": "`errors.Is` model fixed", "C13-a": "schedule exploration built",
 "C14-b": "schedule exploration built", "C16-a": "header compared after every op", "C16-b": "fixed-length user string element",
 "C17-a": "older-template option", "C18-a": "IsIPv6 input added", "C19-a": "MarshalAppend modelled, 300-byte marshal length",
 "C02-c": "user enterprise above 65535 added to the pool", "C04-c": "sync/atomic pointer intrinsics", "C04-d": "string template variants; world rebuilt after setup-state mutation",
 "C07-d": "added the retry history family", "C08-c": "fixed-clock variant (600 ms into the second)", "C08-d": "refresh step added",
 "C10-d": "replacement with another definition added", "C11-d": "live second connection of the same domain", "C15-c": "per-path decision cap (engine ran out of memory before)",
 "C15-d": "added `Check_IncrementalRecord`", "C16-d": "re-prepare operation added", "C17-c": "older template in keep/drop mode",
 "C17-d": "added `Check_KeepOverTCP`", "C18-d": "SystemCertPool / CertPool.Clone modelled", "C19-d": "UnmarshalOptions modelled, merge flag checked",
 "C12-b": "rendezvous semantics for select-send on unbuffered channels; 2 preemptions for UDP in the quick tier",
 "C12-c": "real `Start()` on a stub UDP socket (`Check_StartUDP`)", "C12-d": "client that disconnects mid-message; hang reported as violation",
 "C20-c": "out-of-range counts added", "C20-d": "float, boolean and address fields in the rendered record",
}
rows = []
for d in sorted(glob.glob('/verif/seeded/*')):
    sid = os.path.basename(d)
    m = json.load(open(d + '/meta.json'))
    r = json.load(open(d + '/result.json')) if os.path.exists(d + '/result.json') else {}
    det = []
    for p, v in sorted(r.items()):
        if v['exit'] != 1:
            continue
        lab = ''
        for l in v['lines']:
            mm = re.search(r'(assert:[^ ]+(?: [^ ]+)?|panic:|hang:)', l)
            if mm and not lab:
                lab = mm.group(1).rstrip(' at')
        if not lab and any('race' in l for l in v['lines']):
            lab = 'lockset'
        det.append(f"{p} {lab}".strip())
    summ = re.sub(r'\s+', ' ', m['summary'])[:150].replace('|', '/')
    rows.append(f"| {sid} | {summ} | {'; '.join(det) or 'NOT DETECTED'} | {notes.get(sid, '-')} |")
table = "| seed | change (first 150 characters of the author's summary) | caught by (quick tier; first assertion) | strengthened after a miss |\n|---|---|---|---|\n" + "\n".join(rows)
s = open('/verif/DESIGN.md').read()
a, b = s.index('<!-- seedtable:begin -->'), s.index('<!-- seedtable:end -->')
s = s[:a] + '<!-- seedtable:begin -->\n' + table + '\n' + s[b:]
open('/verif/DESIGN.md', 'w').write(s)
print(len(rows), 'seeds;', sum('NOT DETECTED' in r for r in rows), 'not detected')
