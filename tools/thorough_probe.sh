#!/bin/bash
# runs each thorough check under a time cap and prints exit code and wall time
cap=${CAP:-900}
cd /verif
for id in "$@"; do
  s=$(date +%s)
  out=$(timeout $cap /verif/bin/gosx check $id --tier thorough --no-evidence 2>&1)
  rc=$?
  e=$(( $(date +%s) - s ))
  echo "$id thorough exit=$rc ${e}s"
  echo "$out" | grep "^\[$id\] \|^VIOLATION\|^INCONCLUSIVE" | cut -c1-220 | head -8
done
