#!/usr/bin/env python3
"""Regenerates /verif/MANIFEST.json from the table below (claimed checks) and
the not-applicable list.  Run after adding a property to cmd/gosx/props.go."""
import json, subprocess

BASE = json.load(open('/root/.vp/BASELINE.json'))['cmd']
props = [json.loads(l) for l in open('/verif/properties.jsonl')]
ids = [p['id'] for p in props]

MC = "bounded symbolic model checking of the real code"
claimed = {
 "C15": dict(cat="model_checking", sec="DESIGN.md section 4, C15",
   text="Bounded symbolic execution of the real encoder/decoder (entities.* and collector.decodeDataSet, from go/ssa of /repo's working tree): for each of 22 element kinds and each stated string length, every value bit is a solver variable; length agreement, byte-exact reference encoding, round trip through both decoders and exact consumption are SMT obligations (z3; cvc5 cross-check in the thorough tier). unsat = holds for all values within the bounds; sat = concrete input, replayed natively before it is reported.",
   note="Bounds: lengths quick {0..40,250..260,65530..65535}, thorough {0..1100,65500..65535}; one element between two sentinels. Trusted: go/ssa, the solvers, std-library code executed from SSA; interpreter validated per run against the native build on concrete vectors.",
   tech="symbolic execution of Go SSA + SMT (z3/cvc5), bounded"),
 "C02": dict(cat="model_checking", sec="DESIGN.md section 4, C02",
   text="Bounded symbolic execution of the real exporter (SendSet, createAndSendIPFIXMsg, CreateIPFIXMsg, set/record/element encoders) writing to a recording net.Conn; the captured bytes of every template and data message are compared, as SMT obligations over all values, with an encoder written from RFC 7011 that shares no code with the library. Template shapes are enumerated exhaustively within the bound; all values, ids, domain and sequence state are solver variables.",
   note="Bounds: templates of 1..2 (quick) / 1..3 (thorough) fields over 22 element kinds incl. enterprise 29305/56506/user; 1..3 records; boundary string lengths; thorough adds every registry element id 0..520 x 4 enterprises as a one-field template. Larger templates/record counts outside. Background goroutines not started (C14).",
   tech="symbolic execution of Go SSA + SMT (z3/cvc5), differential against an independent RFC 7011 reference encoder"),
 "C08": dict(cat="model_checking", sec="DESIGN.md section 4, C08",
   text="One-to-three inductive steps of the real SendSet from an arbitrary 32-bit sequence-counter state (hook VerifSetSeq; the 2^32 wrap is just another solver value), symbolic observation domain and a symbolic non-decreasing wall clock: header sequence, stored counter, domain, export time, single Write and byte count are SMT obligations on every path.",
   note="Bounds: 1..2/1..3 successive sends, 1..3 records each. Failed sends outside the statement. Clock stubbed as a symbolic non-decreasing instant.",
   tech="symbolic execution of Go SSA + SMT, inductive step over the counter state"),
 "C09": dict(cat="model_checking", sec="DESIGN.md section 4, C09",
   text="Refusal cases of the real SendSet on a byte-recording net.Conn with symbolic template ids, values and set length: unknown template id (transmitted iff the solver-visible id equals one that was sent), field-count mismatch at any record position, every message size 65519..65540 plus a symbolic set length for the limit comparison itself, undefined set type, and ill-typed values (wrong address family / wrong fixed length) which must be refused rather than altered; after every refusal zero bytes were written and a following send is byte-identical to the reference encoding.",
   note="Bounds as listed per harness in the evidence; sequence-number state after a failed send is outside the statement (C08) and is read back from the wire.",
   tech="symbolic execution of Go SSA + SMT, bounded; refusal oracle on recorded writes"),
 "C03": dict(cat="model_checking", sec="DESIGN.md section 4, C03",
   text="Bounded symbolic execution of the real collector decoder (decodePacket, decodeTemplateSet, decodeDataSet, getFieldLength, util.Decode, bytes.Buffer and encoding/binary from SSA) on packets whose every byte is a solver variable, for every explored template state and all three decoding modes. Totality is decided as a path outcome (any Go panic, any path over the instruction/allocation budget = violation); exactness is an SMT obligation against an independent reference parser of the set body; template messages are compared with a reference walk of the field specifiers.",
   note="Bounds: packets up to 20+12 (quick) / 20+24 (thorough) bytes for fixed-width templates and 20+6 / 20+9 bytes for templates with a variable-length field (paths grow as 2^body there); template layouts as listed in the evidence; template-set packets up to 20+12 / 20+20 bytes with the (element id, enterprise) of each specifier assumed to lie in a pool of 11 pairs. Longer packets are outside the bounded verdict.",
   tech="symbolic execution of Go SSA over all-symbolic packets + SMT; panic/hang as path outcomes; differential against a reference parser"),
 "C01": dict(cat="model_checking", sec="DESIGN.md section 4, C01",
   text="Composition of the real exporter and the real collector decoder under bounded symbolic execution: whatever template and symbolic-valued records are handed to SendSet, the bytes written are presented to decodePacket and the delivered message must carry the same observation domain, template fields (id, enterprise, type, length, name) in order, record count and bit-identical values - as SMT obligations over all values.",
   note="PARTIAL by construction: transports are ASSUMED byte-faithful (one Write = one datagram / a byte stream); kernel sockets, TLS/DTLS record layers and IPv4/IPv6 listeners cannot be encoded and are not part of the verdict. Bounds: templates of 1..2 (quick) / 1..3 (thorough) fields, 1..3 records, boundary string lengths incl. the 65512-byte field that fills a 65535-byte message.",
   tech="symbolic execution of Go SSA + SMT over exporter-then-collector composition, bounded"),
 "C04": dict(cat="model_checking", sec="DESIGN.md section 4, C04",
   text="Bounded histories of template / bad-template / data messages driven through the real decodePacket with the (observation domain, template id) of every message a pair of solver variables: the solver explores every aliasing pattern between keys; each data message must be decoded with exactly the template a reference association-list model holds for its key or be rejected, and the final template store must equal the model.",
   note="Bounds: histories of 3 (quick) / 4 (thorough) messages over two template shapes and two kinds of bad template, tcp and udp flavours (no time passing). Longer histories outside the bounded verdict.",
   tech="symbolic execution of Go SSA + SMT with symbolic map keys, differential against a reference model"),
 "C16": dict(cat="model_checking", sec="DESIGN.md section 4, C16",
   text="Bounded operation sequences over the real set/record builders (NewSet, PrepareSet, AddRecord, AddRecordWithExtraElements, AddRecordV2, UpdateLenInHeader, ResetSet) serialised by the real CreateIPFIXMsg: length bookkeeping after every operation, byte equality with the reference encoding, byte equality of the three add paths, and equality of a reused (reset) set with a fresh set replaying the same suffix - all values and ids symbolic.",
   note="Bounds: one dirtying prefix + reset + prepare + 1..2 adds from a menu of 6 element lists; add-path comparison over all lists of 0..2 (quick) / 0..3 (thorough) elements from 10 kinds. Well-formed order only.",
   tech="symbolic execution of Go SSA + SMT over bounded operation sequences"),
 "C17": dict(cat="model_checking", sec="DESIGN.md section 4, C17",
   text="The same reference-encoded wire bytes (templates interleaving known and unknown IANA/enterprise elements of fixed and variable length, records of symbolic values) are decoded by real collectors in strict, keep and drop mode and, reduced to the known fields, by a fourth: rejection, byte-exact preservation, exact omission and independence of known values are SMT obligations over all values.",
   note="Bounds: 1..2 (quick) / 1..3 (thorough) template positions, unknown lengths {1,2,5,variable(0,3,255)}, 1..2 records.",
   tech="symbolic execution of Go SSA + SMT, three-mode differential"),
 "C05": dict(cat="model_checking", sec="DESIGN.md section 4, C05",
   text="Inductive step of the real aggregation code (addOrUpdateRecordInMap, aggregateRecords, addFieldsFor*, updateFlowEndSecondsFromNodes, correlateRecords) from an ARBITRARY aggregated flow: every counter, per-node end time, delta and throughput field of the pre-state is a solver variable (written through the record's own setters), one symbolic record arrives from the source node, the destination node or an uncorrelated stream, and the post-state is compared field by field with the statement (latest end, node totals, node delta sums, 8 x growth / time growth with 64-bit symbolic division, common fields following the strictly latest reporter, other node untouched). Plus reset from an arbitrary state and bounded multi-flow histories for one-flow-per-key and non-interference.",
   note="Exporter contract and a small representation invariant are assumed (listed in the evidence); ties and overflow are left open as in the statement. 5-tuples concrete; httpVals JSON merging not configured. Histories: 2 (quick) / 3 (thorough) records.",
   tech="symbolic execution of Go SSA + SMT, one inductive step over a fully symbolic aggregate state"),
 "C06": dict(cat="model_checking", sec="DESIGN.md section 4, C06",
   text="One inductive step of the real expiry machinery (addOrUpdateRecordInMap, ForAllExpiredFlowRecordsDo, GetExpiryFromExpirePriorityQueue, TimeToExpirePriorityQueue and container/heap from SSA) from an arbitrary valid (map, heap) state of up to N flows whose deadlines, readiness and retry counts are solver variables: callbacks never early, only for ready flows, earliest first, once; inactive expiry removes, active expiry re-arms; after any scan - including one whose callback failed on any subset of keys - every held flow has exactly one scheduled entry, the heap order and back pointers hold, and the advertised expiry matches the earliest deadline.",
   note="Bounds: 0..2 (quick) / 0..3 (thorough) flows, one operation. Virtual time by deadline placement (frozen clock); a deadline exactly equal to the scan instant is excluded (not replayable; statement leaves it open).",
   tech="symbolic execution of Go SSA + SMT, inductive step over (map, heap) with symbolic deadlines and failing callbacks"),
 "C07": dict(cat="model_checking", sec="DESIGN.md section 4, C07",
   text="Bounded histories of source-node records, destination-node records and expiry scans driven through the real aggregation code (isCorrelationRequired, correlateRecords, areRecordsFromSameNode, the retry/drop branch of ForAllExpiredFlowRecordsDo) with the flow type and both rule actions as solver variables over all 256 values: a flow that needs correlation is never ready nor handed to the callback before both sides were seen, the merged record carries every non-empty correlate field of either side and is marked filled, other flows are ready at once, an uncorrelated flow is retried MaxRetries times then dropped without export.",
   note="Bounds: histories of 3 (quick) / 4 (thorough) events on one flow. String fields and cluster IP split empty/non-empty with concrete contents; per-flow agreement on correlation-relevant fields assumed; virtual time as in C06.",
   tech="symbolic execution of Go SSA + SMT over bounded event histories"),
 "C10": dict(cat="model_checking", sec="DESIGN.md section 4, C10",
   text="Exhaustive bounded schedules of the real UDP template lifetime code (addTemplate with expiry time / AfterFunc / Reset, the timer callback closure, deleteTemplateWithConds, invalidation in decodeTemplateSet, decodeDataSet) against an explicit model of time.AfterFunc timers (armed, fired-but-callback-pending, idle) injected through the collector's clock interface, with time a solver variable: after every event the template store must equal a ghost model (never dropped before its lifetime, gone once a callback ran after the lifetime, invalidated by a bad template), data is accepted exactly when a template is in force, and every stored template has exactly one armed timer targeting t0+TTL or a pending callback while removed ones have no armed timer.",
   note="Bounds: schedules of depth 5 (quick) / 6 (thorough) on 2 keys; callbacks atomic w.r.t. message handling (mutex trusted); real timers, goroutines and parallelism are not explored.",
   tech="symbolic execution of Go SSA + SMT over bounded schedules with an explicit timer-state model and symbolic time"),
 "C11": dict(cat="model_checking", sec="DESIGN.md section 4, C11",
   text="The real handleTCPClient (reader goroutine, bufio.Reader.Peek, io.ReadFull, getMessageLength, decodePacket; goroutine and select executed by the engine's cooperative scheduler) is run on an in-memory connection that delivers a stream of a template and two data messages with symbolic values, optionally with one undecodable message at any position, cut into segments at every single position (quick) or every pair of positions (thorough): delivered messages must be exactly the stream's messages up to the first undecodable one, in order, with values that could not have come from another message's bytes (SMT obligation over all values); the connection is closed, the client entry removed, and a second connection is unaffected.",
   note="Schedules are not enumerated (deterministic run-to-block scheduling); three or more cut points and inter-segment delays are outside the bound; streams of 3-4 short messages.",
   tech="symbolic execution of Go SSA incl. goroutines under a cooperative scheduler + SMT; exhaustive segmentation split"),
 "C18": dict(cat="other", sec="DESIGN.md section 4, C18",
   text="PARTIAL: configuration contract only. Symbolic execution of the real InitExportingProcess / createClientConfig / Start / startTCPServer / createServerConfig / startUDPServer with dial, listen and PEM-parsing functions replaced by recorders decides which dial/listen function go-ipfix calls and with which tls.Config / dtls.Config, for every combination of protocol, settings present/absent, parsing outcomes and a symbolic ServerName. The handshake, chain building, validity, SAN matching and protocol-version negotiation are crypto/tls, crypto/x509 and pion/dtls: trusted, not encoded; the property's certificate matrix is not explored.",
   note="Trusted base: Go crypto libraries and pion/dtls enforce what the configuration asks. Counterexamples are replayed in the interpreter (the real network environment would be needed natively).",
   tech="symbolic execution of Go SSA with recorder stubs for the crypto/network environment (configuration contract)"),
 "C19": dict(cat="other", sec="DESIGN.md section 4, C19",
   text="PARTIAL: protobuf runtime stubbed as uninterpreted. Symbolic execution of the real PublishIPFIXMessages, SendFlowMessage, both shipped schema convertors and consumer.DecodeAndPrintMsg against a recording sarama.AsyncProducer: one Kafka message per data record in order, none for templates, configured topic; the struct handed to proto.Marshal carries the record's symbolic values and the message's export time, sequence number, domain and exporter address; payload = 4-byte big-endian length + exactly the marshalled bytes (arbitrary symbolic bytes); the consumer hands exactly those bytes to proto.Unmarshal.",
   note="Not covered: protobuf wire encoding/decoding (trusted). Streams of 1..2 (quick) / 1..3 (thorough) messages with 0..2 records. Counterexamples are replayed in the interpreter.",
   tech="symbolic execution of Go SSA with an uninterpreted protobuf marshaller"),
 "C20": dict(cat="other", sec="DESIGN.md section 4, C20",
   text="PARTIAL: rendering excluded. Symbolic execution of the real addIPFIXMessage, flowRecordHandler and resetRecordHandler of cmd/collector (package main; the harness file is injected with go's overlay mechanism, nothing is added to the repository): one-step window update from a store of every length (quick: boundary lengths; thorough: every L in 0..4096), record queries for boundary counts in both formats and for a SYMBOLIC count on small stores (strconv.Atoi stubbed), refusal of invalid queries and methods, reset.",
   note="Not covered: 'every field appears by name and value' beyond one concrete record shape (fmt is rendered by the host for concrete operands only); json.Marshal/http plumbing are recorders; run(), the HTTP server and signal handling are not executed. Counterexamples are replayed in the interpreter.",
   tech="symbolic execution of Go SSA (package main via overlay) with recorder stubs for fmt/json/http"),
 "C12": dict(cat="other", sec="DESIGN.md sections 6 and 11.6, C12",
   text="PARTIAL, bounded slice only (two clients, in-memory connections). The real per-connection TCP handler with its reader goroutine (served as the accept loop serves it) and the real UDP dispatch path with its per-client goroutines run under the engine's scheduler together with a draining consumer and Stop; the scheduler's choice at every synchronisation point is a decision of the path explorer, so every interleaving within a preemption budget is enumerated: per-client exactly-once in-order delivery with symbolic values, connection count back to zero, Stop returns, all connections closed, no goroutine of the process left, no panic.",
   note="NOT covered: kernel sockets, the listening socket and accept loop, TLS, more than two clients, data races (no race detector; code between synchronisation points runs atomically), abrupt socket closes, timing. Preemption budget 1 (quick) / 2 (thorough).",
   tech="symbolic execution of Go SSA with exhaustive schedule exploration at synchronisation points (bounded preemptions)"),
 "C13": dict(cat="other", sec="DESIGN.md section 4, C13",
   text="PARTIAL: sufficient condition, not schedules. Every public operation of AggregationProcess is executed symbolically from bounded arbitrary states over all feasible paths (error paths, failing callbacks) under an access monitor that logs every load, store and map operation on state reachable from the process together with the process mutexes held; the lockset rule across operations (conflicting accesses, at least one write, not both atomic, no common lock), a mutex held at return, re-acquired while held or unlocked while free are violations. With mutual exclusion trusted this yields atomic operations (linearizable at the lock acquisition) and reduces lost-update / double-export questions to the sequential properties C05/C06.",
   note="Interleavings are NOT enumerated; the Go memory model, sync.RWMutex and the race detector are trusted. States of 0..1 (quick) / 0..2 (thorough) flows.",
   tech="symbolic execution of Go SSA with a lockset access monitor over all feasible paths"),
 "C14": dict(cat="other", sec="DESIGN.md section 4, C14",
   text="PARTIAL. (1) Lockset monitor over the bodies each goroutine of an exporting process runs (application SendSet / NewTemplateID, UDP refresher sendRefreshedTemplates, TCP checker checkConnToCollector + closeConnToCollector, CloseConnToCollector from anyone) with per-goroutine roles: conflicting unsynchronised accesses to a field of the process from roles that can run concurrently are violations. (2) Sequential contracts of those bodies with symbolic contents on a recording net.Conn: a refresh retransmits every template sent so far exactly once, one Write each, byte-identical to the reference encoding; a peer close is noticed by the check, the connection closed once, later sends fail and write nothing; closing is idempotent; nothing is written after close.",
   note="Not decidable here and not claimed: the ticker loops inside InitExportingProcess, 'within the check interval', real timing and scheduling. Interleavings are not enumerated.",
   tech="symbolic execution of Go SSA with a lockset access monitor + sequential contract checks"),
}

NA = {
}

checks = []
for i in ids:
    if i in claimed:
        c = claimed[i]
        checks.append({
            "property_id": i,
            "quick_cmd": f"/verif/bin/gosx check {i} --tier quick",
            "thorough_cmd": f"/verif/bin/gosx check {i} --tier thorough",
            "evidence_file": f"/verif/evidence/{i}.json",
            "replay_cmd_template": "/verif/bin/gosx replay {path}",
            "engine": "gosx",
            "level_claimed": {"category": c["cat"], "text": c["text"], "design_ref": c["sec"]},
            "level_note": c["note"],
            "technique": c["tech"],
        })
na = []
for i in ids:
    if i not in claimed:
        na.append({"property_id": i, "reason": NA.get(i, "check not built yet (work in progress, see DESIGN.md section 10); not claimed until its harness runs clean on the unchanged tree")})

hooks_commits = subprocess.run(["git","-C","/repo","log","--format=%h %s","--grep=^verif hooks"],capture_output=True,text=True).stdout.strip().split("\n")
m = {
 "version": 1,
 "setup_cmd": "cd /verif/engine && GOFLAGS=-mod=vendor GOPROXY=off GOSUMDB=off GOTOOLCHAIN=local go build -o /verif/bin/gosx ./cmd/gosx",
 "hooks": {"guard": "verif", "enable": "go build -tags verif (the engine loads /repo with -tags=verif; native replays are built with -tags verif)",
           "baseline_off_cmd": BASE, "source_commits": [c.split()[0] for c in hooks_commits if c], "add_only": True},
 "engines": [{"name": "gosx", "path": "/verif/engine", "serves_properties": sorted(claimed),
              "kind_free_text": "own symbolic executor for Go SSA (golang.org/x/tools/go/ssa v0.29.0, vendored): concrete heap, symbolic scalar contents as hash-consed bit-vector terms, exhaustive path exploration by re-execution, z3 4.8.12 as deciding solver (cvc5 1.0 cross-check in thorough tier), native replay of every counterexample"}],
 "checks": checks,
 "not_applicable": na,
 "notes": "exit codes of every check: 0 = property held on everything explored; 1 = violation reproduced natively (VIOLATION line); 2 = inconclusive/engine problem (never reported as success). known_findings.json lists recorded defects and fix: commits.",
}
json.dump(m, open('/verif/MANIFEST.json','w'), indent=1)
print("claimed:", sorted(claimed), "n/a:", len(na))
