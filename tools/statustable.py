#!/usr/bin/env python3
"""Regenerates the status table of DESIGN.md section 11.1 from /verif/evidence/*.json
(quick tier, written by the last run of each check) between the markers."""
import json, glob, os
rows = []
tot = 0.0
for f in sorted(glob.glob('/verif/evidence/C*.json')):
    e = json.load(open(f))
    c = e['coverage']
    hs = ', '.join(h['harness'].split('.')[-1] for h in c['harnesses'])
    paths = sum(h.get('feasible_paths', 0) for h in c['harnesses'])
    tot += e['wall_s']
    rows.append(f"| {e['property_id']} | {hs} | {e['wall_s']:.0f} | {paths} | {c['discharged']} | {c['solver_queries']} | {c['functions_encoded_count']} | {e['level']} |")
hdr = "| id | harness functions | " + "quick wall (s) | feasible paths | obligations discharged | solver queries | repo functions executed | level |\n|---|---|---|---|---|---|---|---|\n"
table = hdr + "\n".join(rows) + f"\n\nTotal quick wall time: {tot:.0f} s (16 cores, idle machine; tier `{e['tier']}` of the last run)."
s = open('/verif/DESIGN.md').read()
a, b = s.index('<!-- statustable:begin -->'), s.index('<!-- statustable:end -->')
s = s[:a] + '<!-- statustable:begin -->\n' + table + '\n' + s[b:]
open('/verif/DESIGN.md', 'w').write(s)
print(len(rows), 'rows; total', round(tot), 's')
