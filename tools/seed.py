#!/usr/bin/env python3
"""Seeded-change tooling.

  seed.py verify <worktree> <variant-dir> <seed-id>
      confirm in the scratch worktree that the change builds, passes the existing
      tests of the packages it touches, that its demonstration fails with the
      change and passes without it; on success store it as /verif/seeded/<seed-id>/.
  seed.py run <seed-id> [<property> ...]
      apply /verif/seeded/<seed-id>/patch.diff to /repo, run the quick checks of the
      given properties (default: the property the seed targets), undo the change,
      and record the outcome in /verif/seeded/<seed-id>/result.json.
"""
import json, os, re, shutil, subprocess, sys, time

ENV = dict(os.environ, GOFLAGS="-mod=mod", GOPROXY="off", GOSUMDB="off", GOTOOLCHAIN="local")
COLLECTOR_RUN = "TestCollectingProcess_|TestFakeAfterFunc|TestTCPCollectingProcess_(ConcurrentClient|ReceiveDataRecord$|ReceiveDataRecordsMemoryUsage|ReceiveInvalidTemplateRecord|ReceiveTemplateRecord)|TestUDPCollectingProcess_(DecodePacketError|ReceiveDataRecord|ReceiveTemplateRecord|TemplateAddAndDelete|TemplateExpire|TemplateUpdate)"
BASELINE_FAIL = {"TestExportingProcessWithTLS", "TestExportingProcessWithDTLS", "TestInitKafkaProducerWithTLS"}


def sh(cmd, cwd, timeout=900):
    p = subprocess.run(cmd, cwd=cwd, env=ENV, shell=True, capture_output=True, text=True, errors="replace", timeout=timeout)
    return p.returncode, p.stdout + p.stderr


def pkg_tests(wt, pkg):
    run = ""
    if pkg.endswith("pkg/collector"):
        run = f"-run '{COLLECTOR_RUN}'"
    rc, out = sh(f"go test -count=1 -timeout 300s {run} ./{pkg}/ 2>&1", wt)
    fails = set(re.findall(r"--- FAIL: (\w+)", out))
    bad = fails - BASELINE_FAIL
    ok = (rc == 0) or (not bad and fails)
    return ok, sorted(bad), out[-1500:]


def verify(wt, vdir, seed_id):
    patch = os.path.join(vdir, "patch.diff")
    demo = os.path.join(vdir, "demo_test.go")
    meta = json.load(open(os.path.join(vdir, "meta.json")))
    head = open(demo).read(3000)
    m = re.search(r"((?:pkg|cmd)/[\w/]+/\w+_test\.go)", head)
    if m:
        demo_dst = m.group(1)
    else:
        md = re.search(r"((?:pkg|cmd)/[\w/]+)/", head)
        mf = re.search(r"(\w+_test\.go)", head)
        if not md or not mf:
            print("cannot find demo placement"); return 1
        demo_dst = md.group(1) + "/" + mf.group(1)
    m2 = re.search(r"go test[^\n]*-run '?\"?(\w+)", head)
    demo_run = m2.group(1) if m2 else "Test"
    race = "-race " if re.search(r"go test[^\n]*-race", head) else ""
    pkgs = sorted(set(os.path.dirname(f) for f in re.findall(r"^diff --git a/(\S+)", open(patch).read(), re.M)))
    log = []
    sh("git checkout -q -- . && git clean -fdq pkg cmd", wt)
    rc, out = sh(f"git apply {patch}", wt)
    if rc: print("patch does not apply", out); return 1
    rc, out = sh("go build ./... && go build -tags verif ./... && go vet " + " ".join("./" + p for p in pkgs), wt)
    log.append(f"with change: go build ./..., go build -tags verif ./..., go vet {pkgs}: rc={rc}")
    if rc: print("build/vet failed", out[-2000:]); sh("git checkout -q -- .", wt); return 1
    for p in pkgs:
        ok, bad, tail = pkg_tests(wt, p)
        log.append(f"with change: existing tests of {p}: {'pass' if ok else 'FAIL ' + str(bad)}")
        if not ok:
            print("existing tests fail with change:", p, bad, tail); sh("git checkout -q -- .", wt); return 1
    shutil.copy(demo, os.path.join(wt, demo_dst))
    demo_pkg = os.path.dirname(demo_dst)
    rc_with, out_with = sh(f"go test {race}-count=1 -timeout 120s -run '{demo_run}' ./{demo_pkg}/ 2>&1", wt, timeout=600)
    log.append(f"with change: demo {demo_run} in {demo_pkg}: rc={rc_with} (expected non-zero)")
    sh(f"git apply -R {patch}", wt)
    rc_without, out_without = sh(f"go test {race}-count=1 -timeout 120s -run '{demo_run}' ./{demo_pkg}/ 2>&1", wt, timeout=600)
    log.append(f"without change: demo {demo_run}: rc={rc_without} (expected 0)")
    os.remove(os.path.join(wt, demo_dst))
    sh("git checkout -q -- . && git clean -fdq pkg cmd", wt)
    if rc_with == 0 or rc_without != 0:
        print("demo does not discriminate", rc_with, rc_without, out_with[-800:], out_without[-800:]); return 1
    dst = os.path.join("/verif/seeded", seed_id)
    os.makedirs(dst, exist_ok=True)
    shutil.copy(patch, os.path.join(dst, "patch.diff"))
    shutil.copy(demo, os.path.join(dst, "demo_test.go"))
    meta_out = {
        "seed": seed_id,
        "property": meta.get("property"),
        "summary": meta.get("summary"),
        "needs_to_manifest": meta.get("needs"),
        "demo_placement": demo_dst,
        "demo_run": demo_run,
        "author_ran": meta.get("ran"),
        "confirmed_by_us": log,
        "base_commit": subprocess.run("git rev-parse --short HEAD", cwd=wt, shell=True, capture_output=True, text=True).stdout.strip(),
    }
    json.dump(meta_out, open(os.path.join(dst, "meta.json"), "w"), indent=1)
    print("verified and stored", seed_id)
    for l in log: print("  ", l)
    return 0


def run(seed_id, props):
    d = os.path.join("/verif/seeded", seed_id)
    meta = json.load(open(os.path.join(d, "meta.json")))
    if not props:
        props = [meta["property"]]
    rc, out = sh("git status --porcelain", "/repo")
    if out.strip():
        print("/repo is not clean:", out); return 2
    rc, out = sh(f"git apply {d}/patch.diff", "/repo")
    if rc:
        print("patch does not apply to /repo:", out); return 2
    results = {}
    try:
        for p in props:
            t0 = time.time()
            rc, out = sh(f"/verif/bin/gosx check {p} --tier quick --no-evidence 2>&1", "/verif", timeout=3600)
            lines = [l for l in out.splitlines() if l.startswith("VIOLATION") or l.startswith("counterexample reproduced") or l.startswith("INCONCLUSIVE")]
            results[p] = {"exit": rc, "seconds": round(time.time() - t0, 1), "lines": [l[:400] for l in lines[:8]]}
            print(f"{seed_id} vs {p}: exit={rc} in {results[p]['seconds']}s")
            for l in lines[:6]: print("    ", l[:300])
    finally:
        sh("git checkout -q -- .", "/repo")
    rc, out = sh("git status --porcelain", "/repo")
    assert not out.strip(), "repo not restored"
    res_path = os.path.join(d, "result.json")
    old = {}
    if os.path.exists(res_path):
        old = json.load(open(res_path))
    old.update(results)
    json.dump(old, open(res_path, "w"), indent=1)
    return 0


def lane_setup(n):
    """A scratch copy of /repo (git worktree) and of the harness module under /tmp/lane<n>."""
    d = f"/tmp/lane{n}"
    os.makedirs(d, exist_ok=True)
    if not os.path.isdir(d + "/repo"):
        rc, out = sh(f"git worktree add --detach {d}/repo HEAD", "/repo")
        assert rc == 0, out
    sh("git checkout -q -- . && git clean -fdq pkg cmd", d + "/repo")
    sh(f"git checkout -q --detach $(git -C /repo rev-parse HEAD)", d + "/repo")
    sh(f"rsync -a --delete /verif/harness/ {d}/harness/", "/")
    gm = open(d + "/harness/go.mod").read().replace("=> /repo", f"=> {d}/repo")
    open(d + "/harness/go.mod", "w").write(gm)
    return d


def lane_run(n, seed_ids, props_override=None, tier="quick"):
    d = lane_setup(n)
    env = f"GOSX_REPO={d}/repo GOSX_HARNESS={d}/harness GOSX_OUT={d}"
    for seed_id in seed_ids:
        sd = os.path.join("/verif/seeded", seed_id)
        meta = json.load(open(os.path.join(sd, "meta.json")))
        props = props_override or [meta["property"]]
        rc, out = sh(f"git apply {sd}/patch.diff", d + "/repo")
        if rc:
            print(seed_id, "patch does not apply:", out); continue
        results = {}
        try:
            for p in props:
                t0 = time.time()
                try:
                    rc, out = sh(f"{env} timeout 1500 /verif/bin/gosx check {p} --tier {tier} --no-evidence 2>&1", "/verif", timeout=1600)
                except subprocess.TimeoutExpired:
                    rc, out = 124, ""
                lines = [l for l in out.splitlines() if l.startswith("VIOLATION") or l.startswith("counterexample reproduced") or l.startswith("INCONCLUSIVE")]
                results[p] = {"exit": rc, "seconds": round(time.time() - t0, 1), "lines": [l[:400] for l in lines[:8]]}
                print(f"{seed_id} vs {p}: exit={rc} in {results[p]['seconds']}s", flush=True)
                for l in lines[:3]: print("    ", l[:260], flush=True)
        finally:
            sh("git checkout -q -- . && git clean -fdq pkg cmd", d + "/repo")
        res_path = os.path.join(sd, "result.json")
        old = json.load(open(res_path)) if os.path.exists(res_path) else {}
        old.update(results)
        json.dump(old, open(res_path, "w"), indent=1)
    return 0


def benign_run(n, names):
    """Behaviour-preserving changes: the check of the property must exit 0."""
    d = lane_setup(n)
    env = f"GOSX_REPO={d}/repo GOSX_HARNESS={d}/harness GOSX_OUT={d}"
    bad = 0
    for name in names:
        bd = os.path.join("/verif/benign", name)
        meta = json.load(open(os.path.join(bd, "meta.json")))
        rc, out = sh(f"git apply {bd}/patch.diff && go build ./... && go build -tags verif ./...", d + "/repo")
        if rc:
            print(name, "does not apply/build:", out[-500:]); bad += 1; continue
        try:
            rc, out = sh(f"{env} timeout 1500 /verif/bin/gosx check {meta['property']} --tier quick --no-evidence 2>&1", "/verif", timeout=1600)
        finally:
            sh("git checkout -q -- . && git clean -fdq pkg cmd", d + "/repo")
        print(f"{name} vs {meta['property']}: exit={rc} {'PASS' if rc == 0 else 'ALARM'}", flush=True)
        if rc != 0:
            bad += 1
            for l in out.splitlines():
                if l.startswith(("VIOLATION", "INCONCLUSIVE", "counterexample")): print("    ", l[:260])
    return 1 if bad else 0


def lane_remove(n):
    d = f"/tmp/lane{n}"
    sh(f"git worktree remove --force {d}/repo; git worktree prune", "/repo")
    shutil.rmtree(d, ignore_errors=True)


if __name__ == "__main__":
    if sys.argv[1] == "lane":  # lane <n> <seed-id>... [-- <prop>...]
        args = sys.argv[3:]
        props = None
        if "--" in args:
            i = args.index("--"); props = args[i + 1:]; args = args[:i]
        sys.exit(lane_run(int(sys.argv[2]), args, props))
    if sys.argv[1] == "benign":
        sys.exit(benign_run(int(sys.argv[2]), sys.argv[3:]))
    if sys.argv[1] == "lane-remove":
        lane_remove(int(sys.argv[2])); sys.exit(0)
    if sys.argv[1] == "verify":
        sys.exit(verify(sys.argv[2], sys.argv[3], sys.argv[4]))
    if sys.argv[1] == "run":
        sys.exit(run(sys.argv[2], sys.argv[3:]))
