#!/bin/bash
# runs every registered check once (tier $1 = quick|thorough) and prints a summary
tier=${1:-quick}
cd /verif
for id in $(python3 -c "import json;print(' '.join(c['property_id'] for c in json.load(open('/verif/MANIFEST.json'))['checks']))"); do
  s=$(date +%s)
  out=$(/verif/bin/gosx check $id --tier $tier 2>&1)
  rc=$?
  e=$(( $(date +%s) - s ))
  echo "$id tier=$tier exit=$rc ${e}s $(echo "$out" | grep -c '^VIOLATION') violations $(echo "$out" | grep -c '^INCONCLUSIVE') inconclusive"
  if [ $rc -ne 0 ]; then echo "$out" | grep '^VIOLATION\|^INCONCLUSIVE\|^counterexample' | cut -c1-300 | head -5; fi
done
