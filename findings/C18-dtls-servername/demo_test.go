// Demonstration for the C18 finding "DTLS exporter does not check the
// collector's name when ServerName is unset".
// Place at pkg/exporter/demo_c18_dtls_servername_test.go and run
//   go test -count=1 -timeout 120s -run TestDemoC18DTLSServerNameUnset ./pkg/exporter/
package exporter

import (
	"context"
	"crypto/ecdsa"
	"crypto/elliptic"
	"crypto/rand"
	"crypto/tls"
	"crypto/x509"
	"crypto/x509/pkix"
	"encoding/pem"
	"math/big"
	"net"
	"testing"
	"time"

	"github.com/pion/dtls/v2"
)

func demoC18Cert(t *testing.T, parent *x509.Certificate, parentKey *ecdsa.PrivateKey, isCA bool, dns []string, ips []net.IP) (*x509.Certificate, *ecdsa.PrivateKey, []byte) {
	key, err := ecdsa.GenerateKey(elliptic.P256(), rand.Reader)
	if err != nil {
		t.Fatal(err)
	}
	tpl := &x509.Certificate{
		SerialNumber: big.NewInt(time.Now().UnixNano()), Subject: pkix.Name{CommonName: "demo"},
		NotBefore: time.Now().Add(-time.Hour), NotAfter: time.Now().Add(time.Hour),
		KeyUsage: x509.KeyUsageDigitalSignature | x509.KeyUsageCertSign, ExtKeyUsage: []x509.ExtKeyUsage{x509.ExtKeyUsageServerAuth},
		BasicConstraintsValid: true, IsCA: isCA, DNSNames: dns, IPAddresses: ips,
	}
	p, pk := tpl, key
	if parent != nil {
		p, pk = parent, parentKey
	}
	der, err := x509.CreateCertificate(rand.Reader, tpl, p, &key.PublicKey, pk)
	if err != nil {
		t.Fatal(err)
	}
	c, _ := x509.ParseCertificate(der)
	return c, key, der
}

// The collector at 127.0.0.1 presents a certificate issued by the configured
// CA.  With ServerName unset the documented behaviour is to check it against
// the address used to contact the server; with ServerName set, against that
// name.  Sessions with a certificate that matches neither must be refused;
// the matching ones are the controls.
func TestDemoC18DTLSServerNameUnset(t *testing.T) {
	ca, caKey, caDER := demoC18Cert(t, nil, nil, true, nil, nil)
	caPEM := pem.EncodeToMemory(&pem.Block{Type: "CERTIFICATE", Bytes: caDER})
	for _, tc := range []struct {
		name       string
		dns        []string
		ips        []net.IP
		serverName string
		wantOK     bool
	}{
		{"unset-name/cert-for-another-host", []string{"some-other-host.example"}, nil, "", false},
		{"unset-name/cert-without-SAN", nil, nil, "", false},
		{"unset-name/cert-for-the-address", nil, []net.IP{net.ParseIP("127.0.0.1")}, "", true},
		{"set-name/cert-for-that-name", []string{"collector.example"}, nil, "collector.example", true},
		{"set-name/cert-for-another-host", []string{"some-other-host.example"}, nil, "collector.example", false},
	} {
		t.Run(tc.name, func(t *testing.T) {
			_, srvKey, srvDER := demoC18Cert(t, ca, caKey, false, tc.dns, tc.ips)
			l, err := dtls.Listen("udp", &net.UDPAddr{IP: net.ParseIP("127.0.0.1")}, &dtls.Config{
				Certificates:         []tls.Certificate{{Certificate: [][]byte{srvDER}, PrivateKey: srvKey}},
				ExtendedMasterSecret: dtls.RequireExtendedMasterSecret,
				ConnectContextMaker:  func() (context.Context, func()) { return context.WithTimeout(context.Background(), 5*time.Second) },
			})
			if err != nil {
				t.Fatal(err)
			}
			defer l.Close()
			go func() {
				for {
					c, err := l.Accept()
					if err != nil {
						return
					}
					go func() { buf := make([]byte, 2048); c.Read(buf); c.Close() }()
				}
			}()
			ep, err := InitExportingProcess(ExporterInput{
				CollectorAddress: l.Addr().String(), CollectorProtocol: "udp", ObservationDomainID: 1,
				TLSClientConfig: &ExporterTLSClientConfig{CAData: caPEM, ServerName: tc.serverName},
			})
			if err == nil {
				ep.CloseConnToCollector()
			}
			if tc.wantOK && err != nil {
				t.Fatalf("control: a collector with a matching certificate was refused: %v", err)
			}
			if !tc.wantOK && err == nil {
				t.Fatalf("DTLS session completed with a collector whose certificate matches neither the configured name %q nor the address %s", tc.serverName, l.Addr())
			}
		})
	}
}
