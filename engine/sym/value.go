package sym

import (
	"fmt"
	"go/types"
	"strings"

	"golang.org/x/tools/go/ssa"
)

// Value is a dynamic value of the interpreted program.
//
//	Int      integers and floats (floats as their IEEE bit pattern), W bits
//	Bool     booleans
//	Str      strings (concrete, or per-byte symbolic with concrete length)
//	*Value   pointers (a cell); nil pointer is (*Value)(nil)
//	Struct, Array, Tuple   []Value
//	Slice    Go slice of cells; nil slice is Slice(nil)
//	*LazySlice  slice whose length is still a symbolic term
//	*Map, *Chan
//	Iface    interface value; nil interface has T == nil
//	*ssa.Function, *ssa.Builtin, *Closure   function values
//	UnsafePtr  opaque wrapper for unsafe.Pointer conversions
type Value interface{}

type Int struct {
	W uint8
	C uint64
	T *Term // non-nil: symbolic
}

type Bool struct {
	C bool
	T *Term
}

type Str struct {
	S string
	B []Int // non-nil: symbolic bytes (len(B) is the length); S unused
}

type Struct []Value
type Array []Value
type Tuple []Value
type Slice []Value

type Iface struct {
	T types.Type
	V Value
}

type Closure struct {
	Fn  *ssa.Function
	Env []Value
}

type UnsafePtr struct{ P Value }

// LazySlice is make([]T, n) with n symbolic: materialised on demand.
type LazySlice struct {
	Len   *Term // 64-bit
	Elem  types.Type
	cells []*Value
	conc  Slice // non-nil once concretised
	done  bool
}

type Chan struct {
	Cap    int
	Q      []Value
	Closed bool
	ID     int
	Elem   types.Type

	pendingSend bool
	recvWait    int // goroutines blocked waiting to receive (rendezvous for select-send on unbuffered channels)
}

func (s Str) Len() int {
	if s.B != nil {
		return len(s.B)
	}
	return len(s.S)
}

func (s Str) IsConc() bool { return s.B == nil }

func (s Str) At(i int) Int {
	if s.B != nil {
		return s.B[i]
	}
	return Int{W: 8, C: uint64(s.S[i])}
}

func (s Str) Sub(lo, hi int) Str {
	if s.B != nil {
		// keep non-nil even when empty? An empty string is concrete.
		if lo == hi {
			return Str{}
		}
		return normStr(s.B[lo:hi])
	}
	return Str{S: s.S[lo:hi]}
}

// normStr makes a Str from bytes, collapsing to a concrete string if possible.
func normStr(b []Int) Str {
	conc := true
	for i := range b {
		if b[i].T != nil {
			conc = false
			break
		}
	}
	if conc {
		bs := make([]byte, len(b))
		for i := range b {
			bs[i] = byte(b[i].C)
		}
		return Str{S: string(bs)}
	}
	c := make([]Int, len(b))
	copy(c, b)
	return Str{B: c}
}

func mkInt(w int, c uint64) Int { return Int{W: uint8(w), C: c & mask(w)} }

var byteVals [256]Value
var boolVals [2]Value

func init() {
	for i := range byteVals {
		byteVals[i] = Int{W: 8, C: uint64(i)}
	}
	boolVals[0] = Bool{C: false}
	boolVals[1] = Bool{C: true}
}

func byteVal(b byte) Value { return byteVals[b] }

func mkBool(b bool) Value {
	if b {
		return boolVals[1]
	}
	return boolVals[0]
}

// widthOf returns the bit width and signedness of a basic integer/float type.
func widthOf(t types.Type) (w int, signed bool, isFloat bool) {
	b, ok := t.Underlying().(*types.Basic)
	if !ok {
		panic(fmt.Sprintf("widthOf: not basic: %v", t))
	}
	switch b.Kind() {
	case types.Int8:
		return 8, true, false
	case types.Int16:
		return 16, true, false
	case types.Int32:
		return 32, true, false
	case types.Int64, types.Int, types.UntypedInt, types.UntypedRune:
		return 64, true, false
	case types.Uint8:
		return 8, false, false
	case types.Uint16:
		return 16, false, false
	case types.Uint32:
		return 32, false, false
	case types.Uint64, types.Uint, types.Uintptr:
		return 64, false, false
	case types.Float32:
		return 32, false, true
	case types.Float64, types.UntypedFloat:
		return 64, false, true
	}
	panic(fmt.Sprintf("widthOf: unsupported basic kind %v", b))
}

func isIntegerish(t types.Type) bool {
	b, ok := t.Underlying().(*types.Basic)
	return ok && b.Info()&(types.IsInteger|types.IsFloat) != 0
}

// zero returns the zero value of type t.
func zero(t types.Type) Value {
	switch t := t.(type) {
	case *types.Basic:
		switch {
		case t.Kind() == types.UntypedNil:
			panic("untyped nil has no zero value")
		case t.Info()&types.IsBoolean != 0:
			return mkBool(false)
		case t.Info()&types.IsString != 0:
			return Str{}
		case t.Kind() == types.UnsafePointer:
			return UnsafePtr{}
		case t.Info()&(types.IsInteger|types.IsFloat) != 0:
			w, _, _ := widthOf(t)
			return Int{W: uint8(w)}
		}
		panic(fmt.Sprintf("zero: unsupported basic %v", t))
	case *types.Pointer:
		return (*Value)(nil)
	case *types.Array:
		a := make(Array, t.Len())
		for i := range a {
			a[i] = zero(t.Elem())
		}
		return a
	case *types.Named:
		return zero(t.Underlying())
	case *types.Alias:
		return zero(types.Unalias(t))
	case *types.Interface:
		return Iface{}
	case *types.Slice:
		return Slice(nil)
	case *types.Struct:
		s := make(Struct, t.NumFields())
		for i := range s {
			s[i] = zero(t.Field(i).Type())
		}
		return s
	case *types.Tuple:
		if t.Len() == 1 {
			return zero(t.At(0).Type())
		}
		s := make(Tuple, t.Len())
		for i := range s {
			s[i] = zero(t.At(i).Type())
		}
		return s
	case *types.Chan:
		return (*Chan)(nil)
	case *types.Map:
		return (*Map)(nil)
	case *types.Signature:
		return (*ssa.Function)(nil)
	}
	panic(fmt.Sprintf("zero: unexpected type %T %v", t, t))
}

// copyVal returns a copy of v (structs and arrays are values in Go).
func copyVal(v Value) Value {
	switch v := v.(type) {
	case Struct:
		c := make(Struct, len(v))
		for i := range v {
			c[i] = copyVal(v[i])
		}
		return c
	case Array:
		c := make(Array, len(v))
		for i := range v {
			c[i] = copyVal(v[i])
		}
		return c
	case Tuple:
		panic("copyVal of tuple")
	}
	return v
}

// store writes v to the cell addr, element-wise for aggregates so that
// pointers to fields stay valid.
func store(addr *Value, v Value) {
	switch v := v.(type) {
	case Struct:
		lhs, ok := (*addr).(Struct)
		if !ok || len(lhs) != len(v) {
			*addr = copyVal(v)
			return
		}
		for i := range lhs {
			store(&lhs[i], v[i])
		}
	case Array:
		lhs, ok := (*addr).(Array)
		if !ok || len(lhs) != len(v) {
			*addr = copyVal(v)
			return
		}
		for i := range lhs {
			store(&lhs[i], v[i])
		}
	default:
		*addr = v
	}
}

func load(addr *Value) Value { return copyVal(*addr) }

// ---------------------------------------------------------------------------
// Debug printing

func ValString(v Value) string {
	var sb strings.Builder
	writeVal(&sb, v, 0)
	return sb.String()
}

func writeVal(sb *strings.Builder, v Value, depth int) {
	if depth > 4 {
		sb.WriteString("...")
		return
	}
	switch v := v.(type) {
	case nil:
		sb.WriteString("<nil>")
	case Int:
		if v.T != nil {
			fmt.Fprintf(sb, "sym%d", v.W)
		} else {
			fmt.Fprintf(sb, "%d", v.C)
		}
	case Bool:
		if v.T != nil {
			sb.WriteString("symbool")
		} else {
			fmt.Fprintf(sb, "%v", v.C)
		}
	case Str:
		if v.B != nil {
			fmt.Fprintf(sb, "symstr[%d]", len(v.B))
		} else {
			fmt.Fprintf(sb, "%q", v.S)
		}
	case *Value:
		if v == nil {
			sb.WriteString("nilptr")
		} else {
			sb.WriteString("&")
			writeVal(sb, *v, depth+1)
		}
	case Struct:
		sb.WriteString("{")
		for i, f := range v {
			if i > 0 {
				sb.WriteString(" ")
			}
			writeVal(sb, f, depth+1)
		}
		sb.WriteString("}")
	case Array:
		sb.WriteString("[")
		for i, f := range v {
			if i > 8 {
				sb.WriteString(" ...")
				break
			}
			if i > 0 {
				sb.WriteString(" ")
			}
			writeVal(sb, f, depth+1)
		}
		sb.WriteString("]")
	case Slice:
		fmt.Fprintf(sb, "slice(len=%d)[", len(v))
		for i, f := range v {
			if i > 8 {
				sb.WriteString(" ...")
				break
			}
			if i > 0 {
				sb.WriteString(" ")
			}
			writeVal(sb, f, depth+1)
		}
		sb.WriteString("]")
	case Tuple:
		sb.WriteString("(")
		for i, f := range v {
			if i > 0 {
				sb.WriteString(", ")
			}
			writeVal(sb, f, depth+1)
		}
		sb.WriteString(")")
	case Iface:
		if v.T == nil {
			sb.WriteString("nil-iface")
		} else {
			fmt.Fprintf(sb, "iface(%v:", v.T)
			writeVal(sb, v.V, depth+1)
			sb.WriteString(")")
		}
	case *Map:
		if v == nil {
			sb.WriteString("nilmap")
		} else {
			fmt.Fprintf(sb, "map(len=%d)", v.Len())
		}
	case *ssa.Function:
		if v == nil {
			sb.WriteString("nilfunc")
		} else {
			sb.WriteString(v.String())
		}
	case *Closure:
		sb.WriteString("closure:" + v.Fn.String())
	default:
		fmt.Fprintf(sb, "%T", v)
	}
}
