package sym

import (
	"fmt"
	"go/types"
	"net"
	"strconv"
	"strings"

	"golang.org/x/tools/go/ssa"
)

type intrinsic func(w *Worker, fr *frame, args []Value) (Value, bool)

// SxPath is the import path of the harness API package.
const SxPath = "verifh/sx"

func (w *Worker) intrinsicFor(fn *ssa.Function) intrinsic {
	if in, ok := w.intrCache[fn]; ok {
		return in
	}
	in := w.findIntrinsic(fn)
	w.intrCache[fn] = in
	return in
}

func (w *Worker) stub(name string) { w.stubsUsed[name] = true }

func zeroRet(fn *ssa.Function) Value { return zeroResult(fn) }

func (w *Worker) findIntrinsic(fn *ssa.Function) intrinsic {
	name := fn.String()
	pkg := ""
	if fn.Pkg != nil {
		pkg = fn.Pkg.Pkg.Path()
	}
	if in, ok := intrinsics[name]; ok {
		return in
	}
	if fn.Name() == "ProtoReflect" && fn.Signature.Recv() != nil && strings.HasSuffix(pkg, "/protobuf") {
		return protoReflectStub
	}
	switch {
	case pkg == "k8s.io/klog/v2":
		return func(w *Worker, fr *frame, args []Value) (Value, bool) {
			w.stub("k8s.io/klog/v2.* (no-op)")
			return zeroRet(fr.fn), true
		}
	case pkg == SxPath:
		if in, ok := sxIntrinsics[fn.Name()]; ok {
			return in
		}
		// other sx functions are interpreted (helpers written in Go)
		return nil
	case pkg == "strings" || pkg == "strconv" || pkg == "bytes" || pkg == "unicode/utf8" || pkg == "unicode":
		if nf, ok := nativePure[name]; ok {
			return func(w *Worker, fr *frame, args []Value) (Value, bool) {
				for _, a := range args {
					if !isConcrete(a) {
						return nil, false
					}
				}
				return nf(w, args), true
			}
		}
	}
	return nil
}

func isConcrete(v Value) bool {
	switch v := v.(type) {
	case Int:
		return v.T == nil
	case Bool:
		return v.T == nil
	case Str:
		return v.IsConc()
	case Slice:
		for _, e := range v {
			if !isConcrete(e) {
				return false
			}
		}
		return true
	}
	return false
}

func concBytes(s Slice) []byte {
	out := make([]byte, len(s))
	for i := range s {
		out[i] = byte(s[i].(Int).C)
	}
	return out
}

func bytesVal(b []byte) Slice {
	if b == nil {
		return nil
	}
	out := make(Slice, len(b))
	for i := range b {
		out[i] = byteVal(b[i])
	}
	return out
}

func sI(v Value) int    { i := v.(Int); return int(sext64(i.C, int(i.W))) }
func sS(v Value) string { return v.(Str).S }
func vI(i int) Value    { return mkInt(64, uint64(int64(i))) }
func vS(s string) Value { return Str{S: s} }

var nativePure = map[string]func(w *Worker, args []Value) Value{
	"strings.Contains":   func(w *Worker, a []Value) Value { return mkBool(strings.Contains(sS(a[0]), sS(a[1]))) },
	"strings.Index":      func(w *Worker, a []Value) Value { return vI(strings.Index(sS(a[0]), sS(a[1]))) },
	"strings.LastIndex":  func(w *Worker, a []Value) Value { return vI(strings.LastIndex(sS(a[0]), sS(a[1]))) },
	"strings.IndexByte":  func(w *Worker, a []Value) Value { return vI(strings.IndexByte(sS(a[0]), byte(a[1].(Int).C))) },
	"strings.HasPrefix":  func(w *Worker, a []Value) Value { return mkBool(strings.HasPrefix(sS(a[0]), sS(a[1]))) },
	"strings.HasSuffix":  func(w *Worker, a []Value) Value { return mkBool(strings.HasSuffix(sS(a[0]), sS(a[1]))) },
	"strings.ToUpper":    func(w *Worker, a []Value) Value { return vS(strings.ToUpper(sS(a[0]))) },
	"strings.ToLower":    func(w *Worker, a []Value) Value { return vS(strings.ToLower(sS(a[0]))) },
	"strings.TrimSpace":  func(w *Worker, a []Value) Value { return vS(strings.TrimSpace(sS(a[0]))) },
	"strings.Replace":    func(w *Worker, a []Value) Value { return vS(strings.Replace(sS(a[0]), sS(a[1]), sS(a[2]), sI(a[3]))) },
	"strings.ReplaceAll": func(w *Worker, a []Value) Value { return vS(strings.ReplaceAll(sS(a[0]), sS(a[1]), sS(a[2]))) },
	"strings.EqualFold":  func(w *Worker, a []Value) Value { return mkBool(strings.EqualFold(sS(a[0]), sS(a[1]))) },
	"strings.Count":      func(w *Worker, a []Value) Value { return vI(strings.Count(sS(a[0]), sS(a[1]))) },
	"strconv.Itoa":       func(w *Worker, a []Value) Value { return vS(strconv.Itoa(sI(a[0]))) },
	"strconv.FormatInt":  func(w *Worker, a []Value) Value { return vS(strconv.FormatInt(int64(sI(a[0])), sI(a[1]))) },
	"strconv.FormatUint": func(w *Worker, a []Value) Value { return vS(strconv.FormatUint(a[0].(Int).C, sI(a[1]))) },
	"strconv.Quote":      func(w *Worker, a []Value) Value { return vS(strconv.Quote(sS(a[0]))) },
	"unicode/utf8.ValidString": func(w *Worker, a []Value) Value {
		return mkBool(validUTF8(sS(a[0])))
	},
}

func validUTF8(s string) bool {
	for _, r := range s {
		if r == 0xFFFD {
			// may be a literal U+FFFD; be conservative and re-check
			return strings.ToValidUTF8(s, "") == s
		}
	}
	return true
}

var intrinsics = map[string]intrinsic{}

func init() {
	noop := func(w *Worker, fr *frame, args []Value) (Value, bool) { return zeroRet(fr.fn), true }
	ident := func(w *Worker, fr *frame, args []Value) (Value, bool) { return args[0], true }
	for k, v := range map[string]intrinsic{
		// ---- sync: state machines are trivial under cooperative scheduling
		"(*sync.Mutex).Lock":      lockIntr("Mutex.Lock"),
		"(*sync.Mutex).Unlock":    lockIntr("Mutex.Unlock"),
		"(*sync.Mutex).TryLock":    tryLockIntr("Mutex.Lock"),
		"(*sync.RWMutex).TryLock":  tryLockIntr("RWMutex.Lock"),
		"(*sync.RWMutex).TryRLock": tryLockIntr("RWMutex.RLock"),
		"(*sync.RWMutex).Lock":    lockIntr("RWMutex.Lock"),
		"(*sync.RWMutex).Unlock":  lockIntr("RWMutex.Unlock"),
		"(*sync.RWMutex).RLock":   lockIntr("RWMutex.RLock"),
		"(*sync.RWMutex).RUnlock": lockIntr("RWMutex.RUnlock"),
		"(*sync.WaitGroup).Add": func(w *Worker, fr *frame, a []Value) (Value, bool) {
			w.stub("sync.WaitGroup (counter)")
			k := a[0].(*Value)
			n, _ := w.pathState["wg"].(map[*Value]int)
			if n == nil {
				n = map[*Value]int{}
				w.pathState["wg"] = n
			}
			n[k] += sI(a[1])
			if n[k] < 0 {
				panic(targetPanic{V: Iface{T: types.Typ[types.String], V: Str{S: "sync: negative WaitGroup counter"}}, Msg: "sync: negative WaitGroup counter", Site: callerName(fr.caller)})
			}
			w.progress()
			return nil, true
		},
		"(*sync.WaitGroup).Done": func(w *Worker, fr *frame, a []Value) (Value, bool) {
			k := a[0].(*Value)
			n, _ := w.pathState["wg"].(map[*Value]int)
			if n == nil {
				n = map[*Value]int{}
				w.pathState["wg"] = n
			}
			n[k]--
			if n[k] < 0 {
				panic(targetPanic{V: Iface{T: types.Typ[types.String], V: Str{S: "sync: negative WaitGroup counter"}}, Msg: "sync: negative WaitGroup counter", Site: callerName(fr.caller)})
			}
			w.progress()
			return nil, true
		},
		"(*sync.WaitGroup).Wait": func(w *Worker, fr *frame, a []Value) (Value, bool) {
			k := a[0].(*Value)
			w.mainG()
			w.block(func() bool {
				n, _ := w.pathState["wg"].(map[*Value]int)
				return n == nil || n[k] == 0
			}, "WaitGroup.Wait")
			return nil, true
		},
		"(*sync.Once).Do": func(w *Worker, fr *frame, a []Value) (Value, bool) {
			k := a[0].(*Value)
			n, _ := w.pathState["once"].(map[*Value]bool)
			if n == nil {
				n = map[*Value]bool{}
				w.pathState["once"] = n
			}
			if !n[k] {
				n[k] = true
				w.call(fr, fr.callpos, a[1], nil)
			}
			return nil, true
		},
		// ---- sync/atomic on cells
		"sync/atomic.LoadUint32":            atomicLoad,
		"sync/atomic.LoadUint64":            atomicLoad,
		"sync/atomic.LoadInt32":             atomicLoad,
		"sync/atomic.LoadInt64":             atomicLoad,
		"sync/atomic.LoadPointer":           atomicLoad,
		"sync/atomic.StorePointer":          atomicStore,
		"sync/atomic.SwapPointer":           atomicSwap,
		"sync/atomic.CompareAndSwapPointer": atomicCAS,
		"sync/atomic.LoadUintptr":           atomicLoad,
		"sync/atomic.StoreUintptr":          atomicStore,
		"sync/atomic.AddUintptr":            atomicAdd,
		"sync/atomic.SwapUintptr":           atomicSwap,
		"sync/atomic.CompareAndSwapUintptr": atomicCAS,
		"sync/atomic.StoreUint32":           atomicStore,
		"sync/atomic.StoreUint64":           atomicStore,
		"sync/atomic.StoreInt32":            atomicStore,
		"sync/atomic.StoreInt64":            atomicStore,
		"sync/atomic.AddUint32":             atomicAdd,
		"sync/atomic.AddUint64":             atomicAdd,
		"sync/atomic.AddInt32":              atomicAdd,
		"sync/atomic.AddInt64":              atomicAdd,
		"sync/atomic.SwapUint32":            atomicSwap,
		"sync/atomic.SwapInt32":             atomicSwap,
		"sync/atomic.SwapUint64":            atomicSwap,
		"sync/atomic.SwapInt64":             atomicSwap,
		"sync/atomic.CompareAndSwapUint32":  atomicCAS,
		"sync/atomic.CompareAndSwapInt32":   atomicCAS,
		"sync/atomic.CompareAndSwapUint64":  atomicCAS,
		"sync/atomic.CompareAndSwapInt64":   atomicCAS,
		// ---- math bit casts
		"math.Float32bits":     ident,
		"math.Float32frombits": ident,
		"math.Float64bits":     ident,
		"math.Float64frombits": ident,
		// ---- runtime odds and ends
		"runtime.KeepAlive":          noop,
		"internal/abi.NoEscape":      ident,
		"internal/stringslite.Clone": ident,
		"strings.Clone":              ident,
		"strconv.cloneString":        ident,
		"internal/abi.Escape":        ident,
		"runtime.Gosched": func(w *Worker, fr *frame, a []Value) (Value, bool) {
			if len(w.gs) > 1 {
				w.idleYields = 0
				w.yield("Gosched")
			}
			return nil, true
		},
		"runtime.SetFinalizer":  noop,
		"internal/race.Enable":  noop,
		"internal/race.Disable": noop,
		// ---- bytealg
		"internal/bytealg.IndexByte": func(w *Worker, fr *frame, a []Value) (Value, bool) {
			s := w.asSlice(a[0])
			return w.indexByte(len(s), func(i int) Int { return s[i].(Int) }, a[1].(Int)), true
		},
		"internal/bytealg.IndexByteString": func(w *Worker, fr *frame, a []Value) (Value, bool) {
			s := a[0].(Str)
			return w.indexByte(s.Len(), s.At, a[1].(Int)), true
		},
		"internal/bytealg.Equal": func(w *Worker, fr *frame, a []Value) (Value, bool) {
			x, y := w.asSlice(a[0]), w.asSlice(a[1])
			return w.mkBoolT(w.strEq(sliceStr(x), sliceStr(y))), true
		},
		"internal/bytealg.MakeNoZero": func(w *Worker, fr *frame, a []Value) (Value, bool) {
			n := int(w.concInt(a[0].(Int), "MakeNoZero"))
			s := make(Slice, n)
			fillZero(s, types.Typ[types.Uint8])
			return s, true
		},
		"internal/bytealg.CountString": func(w *Worker, fr *frame, a []Value) (Value, bool) {
			s := a[0].(Str)
			if !s.IsConc() || a[1].(Int).T != nil {
				return nil, false
			}
			return vI(strings.Count(s.S, string([]byte{byte(a[1].(Int).C)}))), true
		},
		"internal/stringslite.Index": func(w *Worker, fr *frame, a []Value) (Value, bool) {
			if !isConcrete(a[0]) || !isConcrete(a[1]) {
				return nil, false
			}
			return vI(strings.Index(sS(a[0]), sS(a[1]))), true
		},
		// ---- fmt / errors
		"fmt.Errorf":   fmtErrorf,
		"fmt.Sprintf":  fmtOpaque,
		"fmt.Sprint":   fmtOpaque,
		"fmt.Sprintln": fmtOpaque,
		"fmt.Fprintf":  fmtOpaqueN,
		"fmt.Fprint":   fmtOpaqueN,
		"fmt.Fprintln": fmtOpaqueN,
		"fmt.Printf":   fmtOpaqueN,
		"fmt.Println":  fmtOpaqueN,
		"fmt.Print":    fmtOpaqueN,
		"errors.Is":    errorsIs,
		// ---- time
		"time.Now": timeNow,
		"time.Sleep": func(w *Worker, fr *frame, a []Value) (Value, bool) {
			w.stub("time.Sleep (no-op)")
			return nil, true
		},
		"(time.Time).Add":  timeAddSym,
		"time.runtimeNano": func(w *Worker, fr *frame, a []Value) (Value, bool) { return mkInt(64, 0), true },
		// ---- net (concrete only)
		"(net.IP).String": func(w *Worker, fr *frame, a []Value) (Value, bool) {
			s := w.asSlice(a[0])
			if !isConcrete(s) {
				panic(pathAbort{"inconclusive", "net.IP.String on symbolic address (formatting is outside the encoding)"})
			}
			return vS(net.IP(concBytes(s)).String()), true
		},
		"(net.HardwareAddr).String": func(w *Worker, fr *frame, a []Value) (Value, bool) {
			s := w.asSlice(a[0])
			if !isConcrete(s) {
				panic(pathAbort{"inconclusive", "net.HardwareAddr.String on symbolic address"})
			}
			return vS(net.HardwareAddr(concBytes(s)).String()), true
		},
		"net.ParseIP": func(w *Worker, fr *frame, a []Value) (Value, bool) {
			if !isConcrete(a[0]) {
				panic(pathAbort{"inconclusive", "net.ParseIP on symbolic string"})
			}
			ip := net.ParseIP(sS(a[0]))
			if ip == nil {
				return Slice(nil), true
			}
			return bytesVal(ip), true
		},
		"net.IPv4": func(w *Worker, fr *frame, a []Value) (Value, bool) {
			s := make(Slice, 16)
			for i := 0; i < 10; i++ {
				s[i] = byteVal(0)
			}
			s[10], s[11] = byteVal(0xff), byteVal(0xff)
			for i := 0; i < 4; i++ {
				s[12+i] = a[i]
			}
			return s, true
		},
		"encoding/binary.Read": binaryRead,
	} {
		intrinsics[k] = v
	}
}

func sliceStr(s Slice) Str {
	bs := make([]Int, len(s))
	for i := range s {
		bs[i] = s[i].(Int)
	}
	return normStr(bs)
}

func (w *Worker) indexByte(n int, at func(int) Int, c Int) Value {
	for i := 0; i < n; i++ {
		b := at(i)
		if b.T == nil && c.T == nil {
			if b.C == c.C {
				return vI(i)
			}
			continue
		}
		if w.decide(w.P.Cmp(OpEq, w.intTerm(b), w.intTerm(c)), "indexbyte") {
			return vI(i)
		}
	}
	return vI(-1)
}

func lockIntr(what string) intrinsic {
	return func(w *Worker, fr *frame, args []Value) (Value, bool) {
		if w.E.Cfg.ExploreSchedules {
			w.stub("sync.Mutex/RWMutex (blocking state machine; scheduler choices at lock/unlock are explored)")
			w.realLock(what, args[0].(*Value))
		} else {
			w.stub("sync.Mutex/RWMutex (cooperative scheduling: no contention)")
		}
		if w.lockHook != nil {
			w.lockHook(what, args[0].(*Value), fr)
		}
		return nil, true
	}
}

// tryLockIntr: TryLock / TryRLock.  Under schedule exploration the attempt
// fails exactly when another goroutine holds the mutex in a conflicting mode;
// under cooperative scheduling there is no contention and it succeeds.
func tryLockIntr(what string) intrinsic {
	return func(w *Worker, fr *frame, args []Value) (Value, bool) {
		p := args[0].(*Value)
		if w.E.Cfg.ExploreSchedules && !w.inSetup {
			w.stub("sync TryLock/TryRLock (fails exactly when the mutex is held in a conflicting mode)")
			w.mainG()
			w.schedPoint("TryLock")
			st := w.muOf(p)
			free := st.writer == nil && (what == "RWMutex.RLock" || st.readers == 0)
			if !free {
				return mkBool(false), true
			}
			if what == "RWMutex.RLock" {
				st.readers++
			} else {
				st.writer = w.curG
			}
		} else {
			w.stub("sync TryLock/TryRLock (cooperative scheduling: no contention, succeeds)")
		}
		if w.lockHook != nil {
			w.lockHook(what, p, fr)
		}
		return mkBool(true), true
	}
}

func atomicLoad(w *Worker, fr *frame, a []Value) (Value, bool) {
	w.schedPoint("atomic")
	w.noteAtomic(a[0].(*Value), false)
	return load(a[0].(*Value)), true
}
func atomicStore(w *Worker, fr *frame, a []Value) (Value, bool) {
	w.schedPoint("atomic")
	w.noteAtomic(a[0].(*Value), true)
	store(a[0].(*Value), a[1])
	return nil, true
}
func atomicAdd(w *Worker, fr *frame, a []Value) (Value, bool) {
	w.schedPoint("atomic")
	p := a[0].(*Value)
	w.noteAtomic(p, true)
	old := (*p).(Int)
	d := a[1].(Int)
	var nv Value
	if old.T == nil && d.T == nil {
		nv = mkInt(int(old.W), old.C+d.C)
	} else {
		nv = w.mkIntT(int(old.W), w.P.Bin(OpAdd, w.intTerm(old), w.intTerm(d)))
	}
	*p = nv
	return nv, true
}
func atomicSwap(w *Worker, fr *frame, a []Value) (Value, bool) {
	w.schedPoint("atomic")
	p := a[0].(*Value)
	w.noteAtomic(p, true)
	old := *p
	*p = a[1]
	return old, true
}
func atomicCAS(w *Worker, fr *frame, a []Value) (Value, bool) {
	w.schedPoint("atomic")
	p := a[0].(*Value)
	w.noteAtomic(p, true)
	eq := w.valEq(*p, a[1])
	if w.decide(eq, "atomic.CAS") {
		*p = a[2]
		return mkBool(true), true
	}
	return mkBool(false), true
}

// ---------------------------------------------------------------------------
// fmt / errors

func (w *Worker) newError(msg string) Value {
	errorsPkg := w.E.Prog.ImportedPackage("errors")
	if errorsPkg == nil {
		panic(pathAbort{"engine", "errors package not loaded"})
	}
	return w.call(nil, 0, errorsPkg.Func("New"), []Value{Str{S: msg}})
}

func fmtErrorf(w *Worker, fr *frame, args []Value) (Value, bool) {
	w.stub("fmt.Errorf (opaque error; %w keeps the chain)")
	format := args[0].(Str)
	site := "fmt.Errorf"
	if fr.caller != nil {
		site = "fmt.Errorf@" + w.posStr(fr.callpos)
	}
	if format.IsConc() && strings.Contains(format.S, "%w") {
		// find the first error operand
		for _, a := range w.asSlice(args[1]) {
			if it, ok := a.(Iface); ok && it.T != nil && w.implements(it.T, errorIface) {
				fmtPkg := w.E.Prog.ImportedPackage("fmt")
				wt := fmtPkg.Type("wrapError")
				var cell Value = Struct{Str{S: site}, it}
				return Iface{T: types.NewPointer(wt.Type()), V: &cell}, true
			}
		}
	}
	return w.newError(site), true
}

var errorIface = types.Universe.Lookup("error").Type().Underlying().(*types.Interface)

func fmtOpaque(w *Worker, fr *frame, args []Value) (Value, bool) {
	w.stub("fmt.Sprint* (uninterpreted: returns a fixed placeholder string)")
	return Str{S: "<fmt>"}, true
}

func fmtOpaqueN(w *Worker, fr *frame, args []Value) (Value, bool) {
	w.stub("fmt.Print*/Fprint* (no output)")
	return zeroRet(fr.fn), true
}

func errorsIs(w *Worker, fr *frame, args []Value) (Value, bool) {
	err := args[0].(Iface)
	target := args[1].(Iface)
	for depth := 0; depth < 32; depth++ {
		if err.T == nil || target.T == nil {
			return mkBool(err.T == nil && target.T == nil), true
		}
		if types.Identical(err.T, target.T) && types.Comparable(err.T) {
			if w.decide(w.valEq(err.V, target.V), "errors.Is") {
				return mkBool(true), true
			}
		}
		// Unwrap() error
		var f *ssa.Function
		if w.E.Prog.MethodSets.MethodSet(err.T).Lookup(nil, "Unwrap") != nil {
			f = w.E.Prog.LookupMethod(err.T, nil, "Unwrap")
		}
		if f == nil || f.Signature.Results().Len() != 1 {
			return mkBool(false), true
		}
		if _, ok := f.Signature.Results().At(0).Type().Underlying().(*types.Interface); !ok {
			return mkBool(false), true
		}
		r := w.call(fr, fr.callpos, f, []Value{err.V})
		err = r.(Iface)
	}
	return mkBool(false), true
}

// ---------------------------------------------------------------------------
// time.Now

const wallHasMonotonic = uint64(1) << 63

func timeNow(w *Worker, fr *frame, args []Value) (Value, bool) {
	if w.inSetup || w.concrete || w.E.Cfg.ClockMode == "" {
		// fixed instant: 2025-01-01T00:00:00Z, no monotonic reading
		// fixed instants one second apart, each 600 ms into its second (so that
		// rounding instead of truncating the export time shows)
		w.stub("time.Now (fixed instants one microsecond apart, 600 ms into one second)")
		return Struct{mkInt(64, 600_000_000+uint64(w.clockTick())*1000), mkInt(64, 63871286400), (*Value)(nil)}, true
	}
	if w.E.Cfg.ClockMode == "frozen" {
		// the clock stands still; harnesses move time by shifting deadlines
		// (time-translation invariance: the code under test only uses Now, Add,
		// Sub, Before, After)
		w.stub("time.Now (frozen monotonic clock; virtual time moves by shifting deadlines)")
		wall := wallHasMonotonic | (uint64(1<<32) << 30)
		return Struct{mkInt(64, wall), mkInt(64, 1<<40), (*Value)(nil)}, true
	}
	w.stub("time.Now (fresh symbolic instant, non-decreasing)")
	w.clockN++
	v := w.P.Var(fmt.Sprintf("now#%d", w.clockN), 64)
	w.draws = append(w.draws, Draw{Name: "time.Now", Kind: "env", W: 64, vars: []string{v.Name}})
	lo := w.P.Const(64, 1<<40)
	hi := w.P.Const(64, 1<<41)
	c := w.P.BAnd(w.P.Cmp(OpSle, lo, v), w.P.Cmp(OpSlt, v, hi))
	if w.clockLast != nil {
		c = w.P.BAnd(c, w.P.Cmp(OpSle, w.clockLast, v))
	}
	w.assume(c, "clock-monotone")
	w.clockLast = v
	switch w.E.Cfg.ClockMode {
	case "mono":
		// wall seconds fixed, monotonic reading symbolic (nanoseconds)
		wall := wallHasMonotonic | (uint64(1<<32) << 30)
		return Struct{mkInt(64, wall), Int{W: 64, T: v}, (*Value)(nil)}, true
	case "wall":
		// no monotonic reading; ext = seconds since year 1; offset keeps it near 2025
		ext := w.P.Bin(OpAdd, w.P.Bin(OpLShr, v, w.P.Const(64, 12)), w.P.Const(64, 63000000000))
		return Struct{mkInt(64, 0), Int{W: 64, T: ext}, (*Value)(nil)}, true
	}
	panic(pathAbort{"engine", "unknown clock mode " + w.E.Cfg.ClockMode})
}

// timeAddSym models Time.Add for a SYMBOLIC duration on a Time that carries a
// monotonic reading: the reading moves by d (the real code additionally splits
// d into seconds and nanoseconds with 64-bit division by 1e9, a known solver
// stall; comparisons and Sub between such times only use the reading).
// Concrete durations run the real code.
func timeAddSym(w *Worker, fr *frame, args []Value) (Value, bool) {
	d := args[1].(Int)
	if d.T == nil {
		return nil, false
	}
	t := args[0].(Struct)
	wall := t[0].(Int)
	if wall.T != nil || wall.C&wallHasMonotonic == 0 {
		panic(pathAbort{"engine", "Time.Add with a symbolic duration on a time without monotonic reading"})
	}
	w.stub("time.Time.Add with symbolic duration (moves the monotonic reading; wall seconds left unchanged)")
	ext := t[1].(Int)
	ne := w.P.Bin(OpAdd, w.intTerm(ext), d.T)
	return Struct{wall, w.mkIntT(64, ne), t[2]}, true
}

func int64u(i int64) uint64 { return uint64(i) }

func (w *Worker) clockTick() int64 {
	w.clockN++
	return int64(w.clockN)
}

// ---------------------------------------------------------------------------
// encoding/binary.Read: only the *[]byte case (reflect path in go1.23) is
// modelled; every other data type runs the real fast path from SSA.

func binaryRead(w *Worker, fr *frame, args []Value) (Value, bool) {
	data := args[2].(Iface)
	if data.T == nil {
		return nil, false
	}
	pt, ok := data.T.Underlying().(*types.Pointer)
	if !ok {
		return nil, false
	}
	st, ok := pt.Elem().Underlying().(*types.Slice)
	if !ok {
		return nil, false
	}
	if b, ok := st.Elem().Underlying().(*types.Basic); !ok || b.Kind() != types.Uint8 {
		return nil, false
	}
	w.stub("encoding/binary.Read(*[]byte) (contract model of the reflect path: io.ReadFull into the slice)")
	target := w.asSlice(*(data.V.(*Value)))
	ioPkg := w.E.Prog.ImportedPackage("io")
	buf := make(Slice, len(target))
	fillZero(buf, types.Typ[types.Uint8])
	res := w.call(fr, fr.callpos, ioPkg.Func("ReadFull"), []Value{args[0], buf}).(Tuple)
	if e := res[1].(Iface); e.T != nil {
		return e, true
	}
	for i := range target {
		target[i] = buf[i]
	}
	return Iface{}, true
}
