package sym

import (
	"fmt"
	"go/types"
	"strings"
)

// Intrinsics of the harness API package verifh/sx.

var sxIntrinsics = map[string]intrinsic{}

func init() {
	for k, v := range map[string]intrinsic{
		"U8":   sxInt(8),
		"U16":  sxInt(16),
		"U32":  sxInt(32),
		"U64":  sxInt(64),
		"I8":   sxInt(8),
		"I16":  sxInt(16),
		"I32":  sxInt(32),
		"I64":  sxInt(64),
		"Int":  sxInt(64),
		"Bool": sxBool,
		"Bytes": func(w *Worker, fr *frame, a []Value) (Value, bool) {
			n := sI(a[1])
			bs := w.drawBytes(sS(a[0]), n, "bytes")
			out := make(Slice, n)
			for i := range out {
				out[i] = bs[i]
			}
			return out, true
		},
		"Str": func(w *Worker, fr *frame, a []Value) (Value, bool) {
			n := sI(a[1])
			bs := w.drawBytes(sS(a[0]), n, "str")
			if n == 0 {
				return Str{}, true
			}
			return normStr(bs), true
		},
		"Range": func(w *Worker, fr *frame, a []Value) (Value, bool) {
			lo, hi := sI(a[1]), sI(a[2])
			if hi < lo {
				panic(pathAbort{"engine", "sx.Range: empty range " + sS(a[0])})
			}
			if d, ok := w.nextFixed(sS(a[0])); ok && w.concrete {
				w.draws = append(w.draws, Draw{Name: sS(a[0]), Kind: "range", Val: d.Val})
				return vI(int(int64(d.Val))), true
			}
			k := w.split(hi - lo + 1)
			w.draws = append(w.draws, Draw{Name: sS(a[0]), Kind: "range", Val: uint64(int64(lo + k))})
			return vI(lo + k), true
		},
		"Choose": func(w *Worker, fr *frame, a []Value) (Value, bool) {
			n := sI(a[1])
			if d, ok := w.nextFixed(sS(a[0])); ok && w.concrete {
				w.draws = append(w.draws, Draw{Name: sS(a[0]), Kind: "range", Val: d.Val})
				return vI(int(d.Val)), true
			}
			k := w.split(n)
			w.draws = append(w.draws, Draw{Name: sS(a[0]), Kind: "range", Val: uint64(k)})
			return vI(k), true
		},
		"Assume": func(w *Worker, fr *frame, a []Value) (Value, bool) {
			c := a[0].(Bool)
			if c.T == nil {
				if !c.C {
					panic(pathAbort{"assume", "sx.Assume"})
				}
				return nil, true
			}
			w.assume(c.T, "sx.Assume@"+w.callerSite(fr))
			return nil, true
		},
		"Assert": func(w *Worker, fr *frame, a []Value) (Value, bool) {
			w.assertObligation(fr, a[0].(Bool), sS(a[1]))
			return nil, true
		},
		"Reach": func(w *Worker, fr *frame, a []Value) (Value, bool) {
			w.reach = append(w.reach, sS(a[0]))
			return nil, true
		},
		"Observe": func(w *Worker, fr *frame, a []Value) (Value, bool) {
			if !w.concrete {
				return nil, true
			}
			var sb strings.Builder
			sb.WriteString(sS(a[0]))
			for _, v := range w.asSlice(a[1]) {
				sb.WriteByte(' ')
				sb.WriteString(observeStr(v))
			}
			w.observes = append(w.observes, sb.String())
			return nil, true
		},
		"Tier": func(w *Worker, fr *frame, a []Value) (Value, bool) {
			return vI(w.E.Cfg.Tier), true
		},
		"Param": func(w *Worker, fr *frame, a []Value) (Value, bool) {
			if v, ok := w.E.Cfg.Params[sS(a[0])]; ok {
				return vI(int(v)), true
			}
			return a[1], true
		},
		"MonitorBegin": func(w *Worker, fr *frame, a []Value) (Value, bool) {
			w.monitorBegin(sS(a[0]), a[1].(Bool).C, []Value(w.asSlice(a[2])))
			return nil, true
		},
		"MonitorIgnore": func(w *Worker, fr *frame, a []Value) (Value, bool) {
			ign, _ := w.pathState["monitorIgnore"].([]Value)
			w.pathState["monitorIgnore"] = append(ign, w.asSlice(a[0])...)
			return nil, true
		},
		"MonitorEnd": func(w *Worker, fr *frame, a []Value) (Value, bool) {
			w.monitorEnd(fr)
			return nil, true
		},
		"LiveGoroutines": func(w *Worker, fr *frame, a []Value) (Value, bool) {
			n := 0
			for i, g := range w.gs {
				if i > 0 && !g.done && g != w.curG {
					n++
				}
			}
			return vI(n), true
		},
		"Native": func(w *Worker, fr *frame, a []Value) (Value, bool) {
			return mkBool(false), true
		},
		"Symbolic": func(w *Worker, fr *frame, a []Value) (Value, bool) {
			return mkBool(!w.concrete), true
		},
		"Note": func(w *Worker, fr *frame, a []Value) (Value, bool) {
			w.assumes[sS(a[0])] = true
			return nil, true
		},
		"Ite64": func(w *Worker, fr *frame, a []Value) (Value, bool) {
			c := a[0].(Bool)
			x, y := a[1].(Int), a[2].(Int)
			if c.T == nil {
				if c.C {
					return x, true
				}
				return y, true
			}
			return w.mkIntT(64, w.P.Ite(c.T, w.intTerm(x), w.intTerm(y))), true
		},
		"And": func(w *Worker, fr *frame, a []Value) (Value, bool) {
			ts := []*Term{}
			for _, v := range w.asSlice(a[0]) {
				ts = append(ts, w.boolTerm(v.(Bool)))
			}
			return w.mkBoolT(w.P.BAnd(ts...)), true
		},
		"Or": func(w *Worker, fr *frame, a []Value) (Value, bool) {
			ts := []*Term{}
			for _, v := range w.asSlice(a[0]) {
				ts = append(ts, w.boolTerm(v.(Bool)))
			}
			return w.mkBoolT(w.P.BOr(ts...)), true
		},
		"Implies": func(w *Worker, fr *frame, a []Value) (Value, bool) {
			return w.mkBoolT(w.P.BOr(w.P.BNot(w.boolTerm(a[0].(Bool))), w.boolTerm(a[1].(Bool)))), true
		},
		"EqBytes": func(w *Worker, fr *frame, a []Value) (Value, bool) {
			return w.mkBoolT(w.strEq(sliceStr(w.asSlice(a[0])), sliceStr(w.asSlice(a[1])))), true
		},
	} {
		sxIntrinsics[k] = v
	}
}

func sxInt(wd int) intrinsic {
	return func(w *Worker, fr *frame, a []Value) (Value, bool) {
		name := sS(a[0])
		if w.inSetup {
			panic(pathAbort{"engine", "sx draw during setup"})
		}
		if w.concrete {
			if d, ok := w.nextFixed(name); ok {
				w.draws = append(w.draws, Draw{Name: name, Kind: "int", W: wd, Val: d.Val & mask(wd)})
				return mkInt(wd, d.Val), true
			}
			v := w.rng.Uint64() & mask(wd)
			// bias towards boundary values
			switch w.rng.Intn(6) {
			case 0:
				v = 0
			case 1:
				v = mask(wd)
			case 2:
				v = uint64(w.rng.Intn(300))
				v &= mask(wd)
			}
			w.draws = append(w.draws, Draw{Name: name, Kind: "int", W: wd, Val: v})
			return mkInt(wd, v), true
		}
		vn := fmt.Sprintf("%s#%d", name, len(w.draws))
		t := w.P.Var(vn, wd)
		w.draws = append(w.draws, Draw{Name: name, Kind: "int", W: wd, vars: []string{vn}})
		return Int{W: uint8(wd), T: t}, true
	}
}

func sxBool(w *Worker, fr *frame, a []Value) (Value, bool) {
	name := sS(a[0])
	if w.concrete {
		v := w.rng.Intn(2)
		if d, ok := w.nextFixed(name); ok {
			v = int(d.Val & 1)
		}
		w.draws = append(w.draws, Draw{Name: name, Kind: "bool", Val: uint64(v)})
		return mkBool(v == 1), true
	}
	vn := fmt.Sprintf("%s#%d", name, len(w.draws))
	t := w.P.Var(vn, 0)
	w.draws = append(w.draws, Draw{Name: name, Kind: "bool", vars: []string{vn}})
	return Bool{T: t}, true
}

func (w *Worker) drawBytes(name string, n int, kind string) []Int {
	if w.inSetup {
		panic(pathAbort{"engine", "sx draw during setup"})
	}
	out := make([]Int, n)
	if w.concrete {
		if d, ok := w.nextFixed(name); ok {
			bs := make([]byte, n)
			copy(bs, d.Bytes)
			for i := range bs {
				out[i] = Int{W: 8, C: uint64(bs[i])}
			}
			w.draws = append(w.draws, Draw{Name: name, Kind: kind, Bytes: bs})
			return out
		}
		bs := make([]byte, n)
		mode := w.rng.Intn(4)
		for i := range bs {
			switch mode {
			case 0:
				bs[i] = byte(w.rng.Intn(256))
			case 1:
				bs[i] = byte('a' + w.rng.Intn(26))
			case 2:
				bs[i] = byte(w.rng.Intn(3)) * 0x7f
			default:
				bs[i] = byte(w.rng.Intn(256))
			}
			out[i] = Int{W: 8, C: uint64(bs[i])}
		}
		w.draws = append(w.draws, Draw{Name: name, Kind: kind, Bytes: bs})
		return out
	}
	d := Draw{Name: name, Kind: kind, vars: make([]string, n)}
	idx := len(w.draws)
	for i := range out {
		vn := fmt.Sprintf("%s#%d[%d]", name, idx, i)
		d.vars[i] = vn
		out[i] = Int{W: 8, T: w.P.Var(vn, 8)}
	}
	w.draws = append(w.draws, d)
	return out
}

// observeStr renders a concrete value the same way the native sx.Observe does.
func observeStr(v Value) string {
	switch v := v.(type) {
	case Iface:
		if v.T == nil {
			return "nil"
		}
		return observeTyped(v.T, v.V)
	}
	return observeTyped(nil, v)
}

func observeTyped(t types.Type, v Value) string {
	switch v := v.(type) {
	case Int:
		if v.T != nil {
			return "?"
		}
		if t != nil {
			if b, ok := t.Underlying().(*types.Basic); ok {
				wd, signed, isFloat := widthOf(b)
				if isFloat {
					return fmt.Sprintf("f%x", v.C)
				}
				if signed {
					return fmt.Sprintf("%d", sext64(v.C, wd))
				}
			}
		}
		return fmt.Sprintf("%d", v.C)
	case Bool:
		if v.T != nil {
			return "?"
		}
		return fmt.Sprintf("%v", v.C)
	case Str:
		if !v.IsConc() {
			return "?"
		}
		return fmt.Sprintf("%q", v.S)
	case Slice:
		if v == nil {
			return "x"
		}
		if !isConcrete(v) {
			return "?"
		}
		ok := true
		for _, e := range v {
			if i, isInt := e.(Int); !isInt || i.W != 8 {
				ok = false
			}
		}
		if ok {
			return fmt.Sprintf("x%x", concBytes(v))
		}
		var sb strings.Builder
		sb.WriteString("[")
		var et types.Type
		if t != nil {
			if st, ok := t.Underlying().(*types.Slice); ok {
				et = st.Elem()
			}
		}
		for i, e := range v {
			if i > 0 {
				sb.WriteString(",")
			}
			sb.WriteString(observeTyped(et, e))
		}
		sb.WriteString("]")
		return sb.String()
	case *Value:
		if v == nil {
			return "nilptr"
		}
		return "ptr"
	}
	return fmt.Sprintf("<%T>", v)
}

// nextFixed returns the next recorded draw when the worker replays a recorded
// vector in concrete mode (environment draws are skipped).
func (w *Worker) nextFixed(name string) (Draw, bool) {
	if !w.concrete || w.fixed == nil {
		return Draw{}, false
	}
	for w.fixedPos < len(w.fixed) && w.fixed[w.fixedPos].Kind == "env" {
		w.fixedPos++
	}
	if w.fixedPos >= len(w.fixed) {
		panic(pathAbort{"engine", "interpreter replay: draw " + name + " beyond the recorded draws"})
	}
	d := w.fixed[w.fixedPos]
	w.fixedPos++
	if d.Name != name {
		panic(pathAbort{"engine", "interpreter replay: draw " + name + " does not match recorded " + d.Name})
	}
	return d, true
}
