package sym

import (
	"fmt"
	"go/types"
	"os"
	"strings"
	"time"

	"golang.org/x/tools/go/packages"
	"golang.org/x/tools/go/ssa"
	"golang.org/x/tools/go/ssa/ssautil"
)

// Program is a loaded whole program (harness packages + dependencies).
type Program struct {
	Prog     *ssa.Program
	Pkgs     []*ssa.Package // the root (harness) packages
	LoadTime time.Duration
	SSATime  time.Duration
	NumPkgs  int
}

// Load loads the given package patterns from dir with -tags verif and builds SSA.
func Load(dir string, overlay map[string][]byte, patterns ...string) (*Program, error) {
	t0 := time.Now()
	cfg := &packages.Config{
		Mode:       packages.LoadAllSyntax,
		Dir:        dir,
		BuildFlags: []string{"-tags=verif", "-mod=mod"},
		Env: append(os.Environ(),
			"GOFLAGS=-mod=mod", "GOPROXY=off", "GOSUMDB=off", "GOTOOLCHAIN=local", "CGO_ENABLED=0"),
		Overlay: overlay,
	}
	initial, err := packages.Load(cfg, patterns...)
	if err != nil {
		return nil, err
	}
	var errs []string
	packages.Visit(initial, nil, func(p *packages.Package) {
		for _, e := range p.Errors {
			errs = append(errs, e.Error())
		}
	})
	if len(errs) > 0 {
		if len(errs) > 10 {
			errs = errs[:10]
		}
		return nil, fmt.Errorf("load errors:\n%s", strings.Join(errs, "\n"))
	}
	t1 := time.Now()
	prog, pkgs := ssautil.AllPackages(initial, ssa.InstantiateGenerics|ssa.SanityCheckFunctions&0)
	prog.Build()
	t2 := time.Now()
	p := &Program{Prog: prog, LoadTime: t1.Sub(t0), SSATime: t2.Sub(t1), NumPkgs: len(prog.AllPackages())}
	for _, sp := range pkgs {
		if sp != nil {
			p.Pkgs = append(p.Pkgs, sp)
		}
	}
	return p, nil
}

// stdInit lists the standard-library packages whose initialisers are
// interpreted (plain data: error values, small tables).
var stdInit = map[string]bool{
	"io": true, "bytes": true, "bufio": true, "strings": true,
	"encoding/binary": true, "container/heap": true, "sort": true, "slices": true,
	"unicode/utf8": true, "math/bits": true, "strconv": true, "io/fs": false,
	"context": true,
}

// InitAllowed decides whether a package's init function is interpreted.
func (e *Engine) InitAllowed(p *ssa.Package) bool {
	path := p.Pkg.Path()
	if strings.HasSuffix(path, "/protobuf") {
		// generated protobuf code: its init registers descriptors through reflection;
		// the protobuf runtime is stubbed (C19)
		return false
	}
	if strings.HasPrefix(path, e.Cfg.ModulePath) || strings.HasPrefix(path, "verifh") {
		return true
	}
	return stdInit[path]
}

// presetGlobal initialises selected globals of packages whose init is not run.
func (e *Engine) presetGlobal(w *Worker, g *ssa.Global) bool {
	name := g.Pkg.Pkg.Path() + "." + g.Name()
	switch name {
	case "github.com/IBM/sarama.DefaultVersion":
		// V2_1_0_0 (sarama v1.43.3); sarama's init is not interpreted
		var v Value = Struct{Array{mkInt(64, 2), mkInt(64, 1), mkInt(64, 0), mkInt(64, 0)}}
		w.globals[g] = &v
		return true
	case "net.v4InV6Prefix":
		var v Value = bytesVal([]byte{0, 0, 0, 0, 0, 0, 0, 0, 0, 0, 0xff, 0xff})
		w.globals[g] = &v
		return true
	}
	// net/netip: its init interns the address-family markers through package
	// unique (runtime weak pointers); the markers only need distinct identities
	if g.Pkg.Pkg.Path() == "net/netip" && (g.Name() == "z0" || g.Name() == "z4" || g.Name() == "z6noz") {
		h := zero(mustDeref(g.Type())) // unique.Handle[addrDetail]{value *addrDetail}
		if g.Name() != "z0" {
			st := mustDeref(g.Type()).Underlying().(*types.Struct)
			det := zero(mustDeref(st.Field(0).Type()))
			if g.Name() == "z6noz" {
				det.(Struct)[0] = mkBool(true) // isV6
			}
			h.(Struct)[0] = &det
		}
		w.globals[g] = &h
		return true
	}
	// sentinel errors of packages whose init is not interpreted (net.ErrClosed,
	// os.ErrDeadlineExceeded, ...): a distinct opaque error value per variable
	if types.Identical(mustDeref(g.Type()), types.Universe.Lookup("error").Type()) && g.Object() != nil && g.Object().Exported() && strings.HasPrefix(g.Name(), "Err") {
		var v Value = w.newError(name)
		w.globals[g] = &v
		return true
	}
	return false
}

// tolerantGlobal lists globals of un-initialised packages whose zero value is
// acceptable for the code in reach.
func (e *Engine) tolerantGlobal(g *ssa.Global) bool {
	name := g.Pkg.Pkg.Path() + "." + g.Name()
	switch name {
	case "time.localLoc", "time.utcLoc", "time.Local", "time.UTC",
		"sync/atomic.firstStoreInProgress", "errors.errorType",
		"internal/godebug.updateMu", "internal/godebug.cache", "internal/godebug.empty":
		return true
	}
	if strings.HasSuffix(g.Name(), "init$guard") {
		return true
	}
	return false
}

// Bind selects the harness function (and optional Setup) in the root packages.
func (e *Engine) Bind(p *Program, fn string) error {
	e.Fn, e.Setup = nil, nil
	for _, pkg := range p.Pkgs {
		if f := pkg.Func(fn); f != nil {
			e.Fn = f
			e.Setup = pkg.Func("Setup")
			e.Harness = pkg.Pkg.Name() + "." + fn
			break
		}
	}
	if e.Fn == nil {
		return fmt.Errorf("harness function %s not found", fn)
	}
	var std, other []*ssa.Package
	for _, pkg := range e.Prog.AllPackages() {
		if !e.InitAllowed(pkg) {
			continue
		}
		if stdInit[pkg.Pkg.Path()] {
			std = append(std, pkg)
		} else {
			other = append(other, pkg)
		}
	}
	sortPkgs(std)
	sortPkgs(other)
	e.InitPkg = append(std, other...)
	e.UsesTryLock = e.moduleCalls("TryLock", "TryRLock")
	return nil
}

// moduleCalls reports whether any function of the module under test calls a
// sync method of one of the given names.
func (e *Engine) moduleCalls(names ...string) bool {
	found := false
	var scan func(f *ssa.Function)
	scan = func(f *ssa.Function) {
		for _, b := range f.Blocks {
			for _, in := range b.Instrs {
				ci, ok := in.(ssa.CallInstruction)
				if !ok {
					continue
				}
				if c := ci.Common().StaticCallee(); c != nil && c.Pkg != nil && c.Pkg.Pkg.Path() == "sync" {
					for _, n := range names {
						if c.Name() == n {
							found = true
						}
					}
				}
			}
		}
		for _, a := range f.AnonFuncs {
			scan(a)
		}
	}
	for _, pkg := range e.Prog.AllPackages() {
		if !strings.HasPrefix(pkg.Pkg.Path(), e.Cfg.ModulePath) {
			continue
		}
		for _, m := range pkg.Members {
			switch m := m.(type) {
			case *ssa.Function:
				scan(m)
			case *ssa.Type:
				for _, t := range []types.Type{m.Type(), types.NewPointer(m.Type())} {
					ms := e.Prog.MethodSets.MethodSet(t)
					for i := 0; i < ms.Len(); i++ {
						if f := e.Prog.MethodValue(ms.At(i)); f != nil && f.Blocks != nil {
							scan(f)
						}
					}
				}
			}
		}
	}
	return found
}

func sortPkgs(ps []*ssa.Package) {
	for i := 1; i < len(ps); i++ {
		for j := i; j > 0 && ps[j].Pkg.Path() < ps[j-1].Pkg.Path(); j-- {
			ps[j], ps[j-1] = ps[j-1], ps[j]
		}
	}
}
