package sym

import (
	"fmt"
	"go/types"
	"net"
	"strings"

	"golang.org/x/tools/go/ssa"
)

// Environment recorders: sockets, TLS/DTLS and certificate parsing are the
// environment (DESIGN.md 2.5).  Each call is recorded with its arguments so
// that a harness can inspect which function go-ipfix called and with which
// configuration; results follow the documented contracts.

type tickerState struct {
	c       *Chan
	cell    *Value
	stopped bool
	resets  int
	period  int64 // ns
	next    int64 // virtual instant of the next tick (sx.AdvanceTime)
}

func (w *Worker) vnow() int64 { v, _ := w.pathState["vnow"].(int64); return v }

type stubCall struct {
	name string
	fn   *ssa.Function
	args []Value
}

func (w *Worker) recordCall(fr *frame, args []Value) {
	calls, _ := w.pathState["calls"].([]stubCall)
	calls = append(calls, stubCall{name: fr.fn.String(), fn: fr.fn, args: args})
	w.pathState["calls"] = calls
	w.stub(fr.fn.String() + " (recorder: records its arguments, touches no socket)")
}

// resultWith builds the function's result tuple: zero values, with the last
// (error) result set to err when failing.
func (w *Worker) resultWith(fn *ssa.Function, fail bool, what string) Value {
	res := fn.Signature.Results()
	if res.Len() == 1 {
		if fail {
			return w.newError("stub: " + what)
		}
		return zero(res.At(0).Type())
	}
	t := make(Tuple, res.Len())
	for i := range t {
		t[i] = zero(res.At(i).Type())
	}
	if fail {
		t[len(t)-1] = w.newError("stub: " + what)
	}
	return t
}

// stubBool draws a replayable nondeterministic boolean for a stub outcome.
func (w *Worker) stubBool(name string) Bool {
	v, _ := sxBool(w, nil, []Value{Str{S: name}})
	return v.(Bool)
}

func dialRecorder(w *Worker, fr *frame, args []Value) (Value, bool) {
	w.recordCall(fr, args)
	return w.resultWith(fr.fn, false, ""), true
}

func listenRecorder(w *Worker, fr *frame, args []Value) (Value, bool) {
	w.recordCall(fr, args)
	// the listener is the environment: report failure so the server start returns
	return w.resultWith(fr.fn, true, "listen not available"), true
}

func init() {
	for _, n := range []string{"crypto/tls.Dial", "github.com/pion/dtls/v2.Dial", "net.Dial", "net.DialTCP", "net.DialUDP", "net.DialTimeout",
		"crypto/tls.DialWithDialer", "github.com/pion/dtls/v2.DialWithContext", "github.com/pion/dtls/v2.Client", "crypto/tls.Client"} {
		intrinsics[n] = dialRecorder
	}
	for _, n := range []string{"crypto/tls.Listen", "github.com/pion/dtls/v2.Listen", "net.Listen", "net.ListenUDP"} {
		intrinsics[n] = listenRecorder
	}
	intrinsics["net.ResolveUDPAddr"] = func(w *Worker, fr *frame, args []Value) (Value, bool) {
		w.recordCall(fr, args)
		res := fr.fn.Signature.Results()
		cell := zero(mustDeref(res.At(0).Type()))
		return Tuple{&cell, Iface{}}, true
	}
	intrinsics["(*crypto/x509.CertPool).AppendCertsFromPEM"] = func(w *Worker, fr *frame, args []Value) (Value, bool) {
		w.recordCall(fr, args)
		// whether the PEM data parses is the environment's: both outcomes
		ok := w.stubBool("stub:pemParses")
		if w.decideBool(ok, "pemParses") {
			// remember that this pool received these bytes
			m, _ := w.pathState["pools"].(map[*Value][]Value)
			if m == nil {
				m = map[*Value][]Value{}
				w.pathState["pools"] = m
			}
			p := args[0].(*Value)
			m[p] = append(m[p], args[1])
			return mkBool(true), true
		}
		return mkBool(false), true
	}
	intrinsics["crypto/x509.SystemCertPool"] = func(w *Worker, fr *frame, args []Value) (Value, bool) {
		w.recordCall(fr, args)
		// the host's trust store: a pool that is NOT "exactly the configured CA"
		res := fr.fn.Signature.Results()
		cell := zero(mustDeref(res.At(0).Type()))
		p := &cell
		m, _ := w.pathState["pools"].(map[*Value][]Value)
		if m == nil {
			m = map[*Value][]Value{}
			w.pathState["pools"] = m
		}
		m[p] = append(m[p], bytesVal([]byte("<system roots>")))
		return Tuple{p, Iface{}}, true
	}
	intrinsics["(*crypto/x509.CertPool).Clone"] = func(w *Worker, fr *frame, args []Value) (Value, bool) {
		w.recordCall(fr, args)
		src := args[0].(*Value)
		cell := zero(mustDeref(fr.fn.Signature.Results().At(0).Type()))
		p := &cell
		m, _ := w.pathState["pools"].(map[*Value][]Value)
		if m == nil {
			m = map[*Value][]Value{}
			w.pathState["pools"] = m
		}
		m[p] = append([]Value(nil), m[src]...)
		return p, true
	}
	intrinsics["crypto/tls.X509KeyPair"] = func(w *Worker, fr *frame, args []Value) (Value, bool) {
		w.recordCall(fr, args)
		ok := w.stubBool("stub:keyPairParses")
		return w.resultWith(fr.fn, !w.decideBool(ok, "keyPairParses"), "tls: failed to parse key pair"), true
	}
	// tickers never fire on their own (real time does not pass); a harness may
	// make the k-th ticker created on the path tick (sx.FireTicker), which is how
	// the passage of an interval is modelled: one tick is buffered, as in the runtime
	intrinsics["time.NewTicker"] = func(w *Worker, fr *frame, args []Value) (Value, bool) {
		w.stub("time.NewTicker (fires only when the harness says an interval has passed: sx.FireTicker)")
		res := fr.fn.Signature.Results().At(0).Type()
		st := mustDeref(res).Underlying().(*types.Struct)
		cell := zero(mustDeref(res))
		for i := 0; i < st.NumFields(); i++ {
			if st.Field(i).Name() == "C" {
				w.chanSeq++
				c := &Chan{Cap: 1, ID: w.chanSeq, Elem: st.Field(i).Type().Underlying().(*types.Chan).Elem()}
				cell.(Struct)[i] = c
				ts, _ := w.pathState["tickers"].([]*tickerState)
				d := int64(w.concInt(args[0].(Int), "ticker-period"))
				w.pathState["tickers"] = append(ts, &tickerState{c: c, cell: &cell, period: d, next: w.vnow() + d})
			}
		}
		return &cell, true
	}
	tickerOf := func(w *Worker, p *Value) *tickerState {
		ts, _ := w.pathState["tickers"].([]*tickerState)
		for _, t := range ts {
			if t.cell == p {
				return t
			}
		}
		return nil
	}
	intrinsics["(*time.Ticker).Stop"] = func(w *Worker, fr *frame, args []Value) (Value, bool) {
		if t := tickerOf(w, args[0].(*Value)); t != nil {
			t.stopped = true
		}
		return nil, true
	}
	intrinsics["(*time.Ticker).Reset"] = func(w *Worker, fr *frame, args []Value) (Value, bool) {
		if t := tickerOf(w, args[0].(*Value)); t != nil {
			t.stopped = false
			t.resets++
			t.period = int64(w.concInt(args[1].(Int), "ticker-period"))
			t.next = w.vnow() + t.period
		}
		return nil, true
	}
	// AdvanceTime(ns): virtual time passes; every running ticker whose next tick
	// falls inside the step ticks (one tick is buffered, further ones are dropped,
	// as the runtime does)
	sxIntrinsics["AdvanceTime"] = func(w *Worker, fr *frame, a []Value) (Value, bool) {
		now := w.vnow() + int64(sI(a[0]))
		w.pathState["vnow"] = now
		ts, _ := w.pathState["tickers"].([]*tickerState)
		fired := 0
		for _, t := range ts {
			if t.stopped || t.period <= 0 {
				continue
			}
			for t.next <= now {
				t.next += t.period
				if len(t.c.Q) < t.c.Cap {
					t.c.Q = append(t.c.Q, zero(t.c.Elem))
					fired++
				}
			}
		}
		if fired > 0 {
			w.progress()
			w.schedPoint("tick")
		}
		return vI(fired), true
	}
	// FireTicker(k): the interval of the k-th ticker created on this path has
	// passed; returns false if there is no such ticker or it was stopped
	sxIntrinsics["FireTicker"] = func(w *Worker, fr *frame, a []Value) (Value, bool) {
		ts, _ := w.pathState["tickers"].([]*tickerState)
		k := sI(a[0])
		if k < 0 || k >= len(ts) || ts[k].stopped {
			return mkBool(false), true
		}
		if len(ts[k].c.Q) < ts[k].c.Cap {
			ts[k].c.Q = append(ts[k].c.Q, zero(ts[k].c.Elem))
			w.progress()
		}
		w.schedPoint("tick")
		return mkBool(true), true
	}
	sxIntrinsics["NumTickers"] = func(w *Worker, fr *frame, a []Value) (Value, bool) {
		ts, _ := w.pathState["tickers"].([]*tickerState)
		return vI(len(ts)), true
	}
	sxIntrinsics["TickerStopped"] = func(w *Worker, fr *frame, a []Value) (Value, bool) {
		ts, _ := w.pathState["tickers"].([]*tickerState)
		k := sI(a[0])
		return mkBool(k >= 0 && k < len(ts) && ts[k].stopped), true
	}
	// Yield lets the other goroutines run until they block (cooperative mode) -
	// the harness waits for background work to settle
	sxIntrinsics["Settle"] = func(w *Worker, fr *frame, a []Value) (Value, bool) {
		cur := w.mainG()
		if w.curG != nil {
			cur = w.curG
		}
		for i := 0; i < 64; i++ {
			other := false
			for _, g := range w.gs {
				if g != cur && w.runnable(g) {
					other = true
				}
			}
			if !other {
				break
			}
			w.idleYields = 0
			w.yield("settle")
		}
		return nil, true
	}
	// ---- protobuf runtime (unsafe/reflect based): uninterpreted
	// every marshalling entry point is recorded under the name of proto.Marshal
	// with the message as argument 0, so that a harness does not depend on which
	// one the code uses
	marshal := func(msgArg, dstArg int) intrinsic {
		return func(w *Worker, fr *frame, args []Value) (Value, bool) {
			calls, _ := w.pathState["calls"].([]stubCall)
			mfn := w.E.Prog.ImportedPackage("google.golang.org/protobuf/proto").Func("Marshal")
			calls = append(calls, stubCall{name: "google.golang.org/protobuf/proto.Marshal", fn: mfn, args: []Value{args[msgArg]}})
			w.pathState["calls"] = calls
			w.stub("protobuf proto.Marshal / MarshalOptions.Marshal / MarshalAppend (uninterpreted: arbitrary bytes of symbolic content, length split over a short menu)")
			lens := []int{0, 7, 300}
			if w.E.Cfg.Tier > 0 {
				lens = []int{0, 1, 2, 7, 300}
			}
			var n int
			if d, ok := w.nextFixed("stub:marshalLen"); ok {
				n = int(d.Val)
			} else {
				n = lens[w.split(len(lens))]
			}
			w.draws = append(w.draws, Draw{Name: "stub:marshalLen", Kind: "range", Val: uint64(n)})
			bs := w.drawBytes("stub:marshalBytes", n, "bytes")
			var out Slice
			if dstArg >= 0 {
				out = w.asSlice(args[dstArg])
			}
			base := len(out)
			out = growSlice(out, n)
			for i := 0; i < n; i++ {
				out[base+i] = bs[i]
			}
			if out == nil {
				out = Slice{}
			}
			return Tuple{out, Iface{}}, true
		}
	}
	intrinsics["google.golang.org/protobuf/proto.Marshal"] = marshal(0, -1)
	intrinsics["(google.golang.org/protobuf/proto.MarshalOptions).Marshal"] = marshal(1, -1)
	intrinsics["(google.golang.org/protobuf/proto.MarshalOptions).MarshalAppend"] = marshal(2, 1)
	intrinsics["google.golang.org/protobuf/proto.Unmarshal"] = func(w *Worker, fr *frame, args []Value) (Value, bool) {
		w.recordCall(fr, append(args[:2:2], mkBool(false)))
		return Iface{}, true
	}
	// UnmarshalOptions.Unmarshal is recorded under the name of proto.Unmarshal with
	// (bytes, message, merge) so that a harness sees whether stale fields survive
	intrinsics["(google.golang.org/protobuf/proto.UnmarshalOptions).Unmarshal"] = func(w *Worker, fr *frame, args []Value) (Value, bool) {
		opts := args[0].(Struct)
		st := fr.fn.Signature.Recv().Type().Underlying().(*types.Struct)
		var merge Value = mkBool(false)
		for i := 0; i < st.NumFields(); i++ {
			if st.Field(i).Name() == "Merge" {
				merge = opts[i]
			}
		}
		calls, _ := w.pathState["calls"].([]stubCall)
		ufn := w.E.Prog.ImportedPackage("google.golang.org/protobuf/proto").Func("Unmarshal")
		calls = append(calls, stubCall{name: "google.golang.org/protobuf/proto.Unmarshal", fn: ufn, args: []Value{args[1], args[2], merge}})
		w.pathState["calls"] = calls
		w.stub("protobuf UnmarshalOptions.Unmarshal (recorder)")
		return Iface{}, true
	}
	_ = 0

	sxIntrinsics["StubCount"] = func(w *Worker, fr *frame, a []Value) (Value, bool) {
		n := 0
		calls, _ := w.pathState["calls"].([]stubCall)
		for _, c := range calls {
			if c.name == sS(a[0]) {
				n++
			}
		}
		return vI(n), true
	}
	sxIntrinsics["StubArg"] = func(w *Worker, fr *frame, a []Value) (Value, bool) {
		calls, _ := w.pathState["calls"].([]stubCall)
		k := sI(a[1])
		for _, c := range calls {
			if c.name != sS(a[0]) {
				continue
			}
			if k > 0 {
				k--
				continue
			}
			i := sI(a[2])
			params := c.fn.Signature.Params()
			if c.fn.Signature.Recv() == nil && i >= params.Len() {
				return Iface{T: types.Typ[types.Bool], V: c.args[i]}, true
			}
			var t types.Type
			if c.fn.Signature.Recv() != nil {
				if i == 0 {
					t = c.fn.Signature.Recv().Type()
				} else {
					t = params.At(i - 1).Type()
				}
			} else {
				t = params.At(i).Type()
			}
			if _, isIface := t.Underlying().(*types.Interface); isIface {
				return c.args[i], true
			}
			return Iface{T: t, V: c.args[i]}, true
		}
		panic(pathAbort{"engine", fmt.Sprintf("sx.StubArg: no call %d of %s", sI(a[1]), sS(a[0]))})
	}
	// PoolHas reports whether the cert pool received exactly the given PEM bytes.
	sxIntrinsics["PoolHas"] = func(w *Worker, fr *frame, a []Value) (Value, bool) {
		it := a[0].(Iface)
		p, _ := it.V.(*Value)
		m, _ := w.pathState["pools"].(map[*Value][]Value)
		if p == nil || m == nil || len(m[p]) != 1 {
			return mkBool(false), true
		}
		got := w.asSlice(m[p][0])
		return w.mkBoolT(w.strEq(sliceStr(got), sliceStr(w.asSlice(a[1])))), true
	}
}

// isProtoStub reports whether an interface value is a generated protobuf
// message standing in for its protoreflect.Message (see protoReflectStub).
func (w *Worker) isProtoStub(v Iface) bool {
	p, ok := v.T.(*types.Pointer)
	if !ok {
		return false
	}
	n, ok := p.Elem().(*types.Named)
	return ok && n.Obj().Pkg() != nil && w.E.Prog.MethodSets.MethodSet(v.T).Lookup(n.Obj().Pkg(), "ProtoReflect") != nil
}

// protoReflectStub replaces the generated ProtoReflect method: the message
// itself stands in for its protoreflect.Message; Interface() gives it back.
func protoReflectStub(w *Worker, fr *frame, args []Value) (Value, bool) {
	w.stub("generated (*T).ProtoReflect (the generated struct stands in for its protoreflect.Message; protobuf runtime not interpreted)")
	return Iface{T: fr.fn.Signature.Recv().Type(), V: args[0]}, true
}

func init() {
	// ---- C20: HTTP plumbing and JSON rendering are the environment
	intrinsics["encoding/json.Marshal"] = func(w *Worker, fr *frame, args []Value) (Value, bool) {
		w.recordCall(fr, args)
		return Tuple{bytesVal([]byte("<json>")), Iface{}}, true
	}
	intrinsics["net/http.Error"] = func(w *Worker, fr *frame, args []Value) (Value, bool) {
		w.stub("net/http.Error (calls WriteHeader(code) on the ResponseWriter; body not rendered)")
		it := args[0].(Iface)
		f := w.E.Prog.LookupMethod(it.T, nil, "WriteHeader")
		w.call(fr, fr.callpos, f, []Value{it.V, args[2]})
		return nil, true
	}
	intrinsics["(net/http.Header).Set"] = func(w *Worker, fr *frame, args []Value) (Value, bool) {
		w.stub("net/http.Header.Set (plain map update, no canonicalisation)")
		w.mapInsert(args[0].(*Map), args[1], Slice{args[2]})
		return nil, true
	}
	intrinsics["(net/http.Header).Del"] = func(w *Worker, fr *frame, args []Value) (Value, bool) {
		w.mapDelete(args[0].(*Map), args[1])
		return nil, true
	}
	intrinsics["strconv.Atoi"] = func(w *Worker, fr *frame, args []Value) (Value, bool) {
		s := args[0].(Str)
		if s.IsConc() && s.S == "SYM" && !w.concrete {
			// the query parameter is an input: an arbitrary integer
			w.stub("strconv.Atoi(\"SYM\") (returns an arbitrary symbolic int: the count query parameter as solver variable)")
			v, _ := sxInt(64)(w, nil, []Value{Str{S: "stub:count"}})
			return Tuple{v, Iface{}}, true
		}
		return nil, false
	}
}

// ---- C12: sockets for the real Start(): a harness registers what the
// environment will deliver (sx.RegisterListener / sx.RegisterDatagrams) and
// net.Listen / net.ListenUDP hand it out.
func init() {
	sxIntrinsics["RegisterListener"] = func(w *Worker, fr *frame, a []Value) (Value, bool) {
		w.pathState["listener"] = a[0]
		return nil, true
	}
	// RegisterDatagrams(payloads [][]byte, from []string)
	sxIntrinsics["RegisterDatagrams"] = func(w *Worker, fr *frame, a []Value) (Value, bool) {
		w.pathState["datagrams"] = w.asSlice(a[0])
		w.pathState["datagramFrom"] = w.asSlice(a[1])
		w.pathState["datagramPos"] = 0
		return nil, true
	}
	sxIntrinsics["DatagramsRead"] = func(w *Worker, fr *frame, a []Value) (Value, bool) {
		n, _ := w.pathState["datagramPos"].(int)
		return vI(n), true
	}
	sxIntrinsics["UDPSocketClosed"] = func(w *Worker, fr *frame, a []Value) (Value, bool) {
		c, _ := w.pathState["udpClosed"].(int)
		return vI(c), true
	}
	sxIntrinsics["RegisterConn"] = func(w *Worker, fr *frame, a []Value) (Value, bool) {
		w.pathState["dialConn"] = a[0]
		return nil, true
	}
	// net.Dial: the connection the harness registered, if any (the call is recorded either way)
	prevDial := intrinsics["net.Dial"]
	intrinsics["net.Dial"] = func(w *Worker, fr *frame, args []Value) (Value, bool) {
		c, ok := w.pathState["dialConn"]
		if !ok {
			return prevDial(w, fr, args)
		}
		w.recordCall(fr, args)
		return Tuple{c, Iface{}}, true
	}
	prevListen := intrinsics["net.Listen"]
	intrinsics["net.Listen"] = func(w *Worker, fr *frame, args []Value) (Value, bool) {
		l, ok := w.pathState["listener"]
		if !ok {
			return prevListen(w, fr, args)
		}
		w.recordCall(fr, args)
		return Tuple{l, Iface{}}, true
	}
	// crypto/tls.NewListener(inner, config): recorded; returns the listener the
	// harness registered as the TLS side (sx.RegisterTLSListener), so that a
	// server built as tls.NewListener(net.Listen(...)) can be told from one that
	// accepts on the plaintext listener
	sxIntrinsics["RegisterTLSListener"] = func(w *Worker, fr *frame, a []Value) (Value, bool) {
		w.pathState["tlsListener"] = a[0]
		return nil, true
	}
	intrinsics["crypto/tls.NewListener"] = func(w *Worker, fr *frame, args []Value) (Value, bool) {
		w.recordCall(fr, args)
		if l, ok := w.pathState["tlsListener"]; ok {
			return l, true
		}
		return args[0], true
	}
	prevListenUDP := intrinsics["net.ListenUDP"]
	intrinsics["net.ListenUDP"] = func(w *Worker, fr *frame, args []Value) (Value, bool) {
		if _, ok := w.pathState["datagrams"]; !ok {
			return prevListenUDP(w, fr, args)
		}
		w.recordCall(fr, args)
		cell := zero(mustDeref(fr.fn.Signature.Results().At(0).Type()))
		return Tuple{&cell, Iface{}}, true
	}
	intrinsics["(*net.UDPConn).ReadFromUDP"] = func(w *Worker, fr *frame, args []Value) (Value, bool) {
		w.stub("(*net.UDPConn).ReadFromUDP (delivers the registered datagrams one per call into the caller's buffer, then blocks until Close)")
		w.schedPoint("udp-read")
		w.block(func() bool {
			pos, _ := w.pathState["datagramPos"].(int)
			dg, _ := w.pathState["datagrams"].(Slice)
			closed, _ := w.pathState["udpClosed"].(int)
			return pos < len(dg) || closed > 0
		}, "ReadFromUDP")
		res := fr.fn.Signature.Results()
		if closed, _ := w.pathState["udpClosed"].(int); closed > 0 {
			return Tuple{vI(0), zero(res.At(1).Type()), w.newError("use of closed network connection")}, true
		}
		pos := w.pathState["datagramPos"].(int)
		payload := w.asSlice(w.pathState["datagrams"].(Slice)[pos])
		from := w.pathState["datagramFrom"].(Slice)[pos].(Str)
		w.pathState["datagramPos"] = pos + 1
		buf := w.asSlice(args[1])
		n := len(payload)
		if n > len(buf) {
			n = len(buf)
		}
		for i := 0; i < n; i++ {
			buf[i] = payload[i]
		}
		// *net.UDPAddr{IP, Port, Zone}
		host, port := from.S, 0
		if i := strings.LastIndexByte(from.S, ':'); i >= 0 {
			host = from.S[:i]
			fmt.Sscan(from.S[i+1:], &port)
		}
		ip := net.ParseIP(host)
		if v4 := ip.To4(); v4 != nil {
			ip = v4
		}
		addrT := mustDeref(res.At(1).Type())
		st := addrT.Underlying().(*types.Struct)
		var addr Value = zero(addrT)
		for i := 0; i < st.NumFields(); i++ {
			switch st.Field(i).Name() {
			case "IP":
				addr.(Struct)[i] = bytesVal(ip)
			case "Port":
				addr.(Struct)[i] = vI(port)
			}
		}
		w.progress()
		return Tuple{vI(n), &addr, Iface{}}, true
	}
	udpClose := func(w *Worker, fr *frame, args []Value) (Value, bool) {
		c, _ := w.pathState["udpClosed"].(int)
		w.pathState["udpClosed"] = c + 1
		w.progress()
		return Iface{}, true
	}
	udpLocal := func(w *Worker, fr *frame, args []Value) (Value, bool) {
		return Iface{}, true
	}
	for _, recv := range []string{"(*net.UDPConn)", "(*net.conn)"} {
		intrinsics[recv+".Close"] = udpClose
		intrinsics[recv+".LocalAddr"] = udpLocal
	}
	intrinsics["(*net.UDPAddr).String"] = func(w *Worker, fr *frame, args []Value) (Value, bool) {
		p := args[0].(*Value)
		if p == nil {
			return Str{S: "<nil>"}, true
		}
		st := mustDeref(fr.fn.Signature.Recv().Type()).Underlying().(*types.Struct)
		var ip net.IP
		port := 0
		for i := 0; i < st.NumFields(); i++ {
			switch st.Field(i).Name() {
			case "IP":
				ip = net.IP(concBytes(w.asSlice((*p).(Struct)[i])))
			case "Port":
				port = sI((*p).(Struct)[i])
			}
		}
		return Str{S: net.JoinHostPort(ip.String(), fmt.Sprint(port))}, true
	}
}
