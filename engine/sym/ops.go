package sym

import (
	"fmt"
	"go/token"
	"go/types"
	"math"
	"unicode/utf8"

	"golang.org/x/tools/go/ssa"
)

func (w *Worker) intTerm(i Int) *Term {
	if i.T != nil {
		return i.T
	}
	return w.P.Const(int(i.W), i.C)
}

func (w *Worker) boolTerm(b Bool) *Term {
	if b.T != nil {
		return b.T
	}
	return w.P.Bool(b.C)
}

func (w *Worker) mkIntT(wd int, t *Term) Value {
	if t.IsConst() {
		if wd == 8 {
			return byteVal(byte(t.K))
		}
		return Int{W: uint8(wd), C: t.K}
	}
	return Int{W: uint8(wd), T: t}
}

func (w *Worker) mkBoolT(t *Term) Value {
	if t.IsConst() {
		return mkBool(t.K != 0)
	}
	return Bool{T: t}
}

func floatOf(i Int) float64 {
	if i.W == 32 {
		return float64(math.Float32frombits(uint32(i.C)))
	}
	return math.Float64frombits(i.C)
}

func floatVal(wd int, f float64) Value {
	if wd == 32 {
		return Int{W: 32, C: uint64(math.Float32bits(float32(f)))}
	}
	return Int{W: 64, C: math.Float64bits(f)}
}

func (w *Worker) binop(fr *frame, instr ssa.Instruction, op token.Token, t types.Type, x, y Value) Value {
	switch xv := x.(type) {
	case Int:
		yv := y.(Int)
		_, signed, isFloat := widthOf(t)
		if isFloat {
			return w.floatBinop(fr, instr, op, xv, yv)
		}
		return w.intBinop(fr, instr, op, signed, xv, yv)
	case Bool:
		yv := y.(Bool)
		switch op {
		case token.EQL:
			if xv.T == nil && yv.T == nil {
				return mkBool(xv.C == yv.C)
			}
			return w.mkBoolT(w.P.Cmp(OpEq, w.boolTerm(xv), w.boolTerm(yv)))
		case token.NEQ:
			if xv.T == nil && yv.T == nil {
				return mkBool(xv.C != yv.C)
			}
			return w.mkBoolT(w.P.BNot(w.P.Cmp(OpEq, w.boolTerm(xv), w.boolTerm(yv))))
		case token.AND, token.LAND:
			return w.mkBoolT(w.P.BAnd(w.boolTerm(xv), w.boolTerm(yv)))
		case token.OR, token.LOR:
			return w.mkBoolT(w.P.BOr(w.boolTerm(xv), w.boolTerm(yv)))
		}
	case Str:
		yv := y.(Str)
		switch op {
		case token.ADD:
			return strConcat(xv, yv)
		case token.EQL:
			return w.mkBoolT(w.strEq(xv, yv))
		case token.NEQ:
			return w.mkBoolT(w.P.BNot(w.strEq(xv, yv)))
		case token.LSS, token.LEQ, token.GTR, token.GEQ:
			if xv.IsConc() && yv.IsConc() {
				switch op {
				case token.LSS:
					return mkBool(xv.S < yv.S)
				case token.LEQ:
					return mkBool(xv.S <= yv.S)
				case token.GTR:
					return mkBool(xv.S > yv.S)
				case token.GEQ:
					return mkBool(xv.S >= yv.S)
				}
			}
			panic(pathAbort{"engine", "ordered comparison of symbolic strings"})
		}
	default:
		switch op {
		case token.EQL:
			return w.mkBoolT(w.valEq(x, y))
		case token.NEQ:
			return w.mkBoolT(w.P.BNot(w.valEq(x, y)))
		}
	}
	panic(pathAbort{"engine", fmt.Sprintf("binop: unsupported %T %s %T at %s", x, op, y, fr.site(instr))})
}

func (w *Worker) intBinop(fr *frame, instr ssa.Instruction, op token.Token, signed bool, x, y Int) Value {
	wd := int(x.W)
	// shifts: y may have a different width and is unsigned or signed
	switch op {
	case token.SHL, token.SHR:
		return w.shift(fr, instr, op, signed, x, y)
	}
	if x.T == nil && y.T == nil {
		a, b := x.C, y.C
		m := mask(wd)
		sa, sb := sext64(a, wd), sext64(b, wd)
		switch op {
		case token.ADD:
			return mkInt(wd, a+b)
		case token.SUB:
			return mkInt(wd, a-b)
		case token.MUL:
			return mkInt(wd, a*b)
		case token.QUO:
			if b == 0 {
				fr.rtPanic(instr, "integer divide by zero")
			}
			if signed {
				if sb == -1 {
					return mkInt(wd, uint64(-sa))
				}
				return mkInt(wd, uint64(sa/sb))
			}
			return mkInt(wd, a/b)
		case token.REM:
			if b == 0 {
				fr.rtPanic(instr, "integer divide by zero")
			}
			if signed {
				if sb == -1 {
					return mkInt(wd, 0)
				}
				return mkInt(wd, uint64(sa%sb))
			}
			return mkInt(wd, a%b)
		case token.AND:
			return mkInt(wd, a&b)
		case token.OR:
			return mkInt(wd, a|b)
		case token.XOR:
			return mkInt(wd, a^b)
		case token.AND_NOT:
			return mkInt(wd, a&^b&m)
		case token.EQL:
			return mkBool(a == b)
		case token.NEQ:
			return mkBool(a != b)
		case token.LSS:
			if signed {
				return mkBool(sa < sb)
			}
			return mkBool(a < b)
		case token.LEQ:
			if signed {
				return mkBool(sa <= sb)
			}
			return mkBool(a <= b)
		case token.GTR:
			if signed {
				return mkBool(sa > sb)
			}
			return mkBool(a > b)
		case token.GEQ:
			if signed {
				return mkBool(sa >= sb)
			}
			return mkBool(a >= b)
		}
		panic(pathAbort{"engine", "intBinop: unsupported op " + op.String()})
	}
	a, b := w.intTerm(x), w.intTerm(y)
	P := w.P
	switch op {
	case token.ADD:
		return w.mkIntT(wd, P.Bin(OpAdd, a, b))
	case token.SUB:
		return w.mkIntT(wd, P.Bin(OpSub, a, b))
	case token.MUL:
		return w.mkIntT(wd, P.Bin(OpMul, a, b))
	case token.QUO, token.REM:
		if y.T == nil && y.C == 0 {
			fr.rtPanic(instr, "integer divide by zero")
		}
		if y.T != nil {
			z := P.Cmp(OpEq, b, P.Const(wd, 0))
			if w.decide(z, "divzero@"+fr.site(instr)) {
				fr.rtPanic(instr, "integer divide by zero")
			}
		}
		var o Op
		switch {
		case op == token.QUO && signed:
			o = OpSDiv
		case op == token.QUO:
			o = OpUDiv
		case signed:
			o = OpSRem
		default:
			o = OpURem
		}
		return w.mkIntT(wd, P.Bin(o, a, b))
	case token.AND:
		return w.mkIntT(wd, P.Bin(OpAnd, a, b))
	case token.OR:
		return w.mkIntT(wd, P.Bin(OpOr, a, b))
	case token.XOR:
		return w.mkIntT(wd, P.Bin(OpXor, a, b))
	case token.AND_NOT:
		return w.mkIntT(wd, P.Bin(OpAnd, a, P.Not(b)))
	case token.EQL:
		return w.mkBoolT(P.Cmp(OpEq, a, b))
	case token.NEQ:
		return w.mkBoolT(P.BNot(P.Cmp(OpEq, a, b)))
	case token.LSS:
		if signed {
			return w.mkBoolT(P.Cmp(OpSlt, a, b))
		}
		return w.mkBoolT(P.Cmp(OpUlt, a, b))
	case token.LEQ:
		if signed {
			return w.mkBoolT(P.Cmp(OpSle, a, b))
		}
		return w.mkBoolT(P.Cmp(OpUle, a, b))
	case token.GTR:
		if signed {
			return w.mkBoolT(P.Cmp(OpSlt, b, a))
		}
		return w.mkBoolT(P.Cmp(OpUlt, b, a))
	case token.GEQ:
		if signed {
			return w.mkBoolT(P.Cmp(OpSle, b, a))
		}
		return w.mkBoolT(P.Cmp(OpUle, b, a))
	}
	panic(pathAbort{"engine", "intBinop: unsupported op " + op.String()})
}

func (w *Worker) shift(fr *frame, instr ssa.Instruction, op token.Token, signed bool, x, y Int) Value {
	wd := int(x.W)
	// shift count signedness from the instruction's Y type
	ySigned := false
	if b, ok := instr.(*ssa.BinOp); ok {
		_, ySigned, _ = widthOf(b.Y.Type())
	}
	if y.T == nil {
		cnt := y.C
		if ySigned && sext64(y.C, int(y.W)) < 0 {
			fr.rtPanic(instr, "negative shift amount")
		}
		if x.T == nil {
			var o Op
			switch {
			case op == token.SHL:
				o = OpShl
			case signed:
				o = OpAShr
			default:
				o = OpLShr
			}
			v, _ := foldBin(o, wd, x.C, cnt)
			return mkInt(wd, v)
		}
		c := cnt
		if c > uint64(wd) {
			c = uint64(wd)
		}
		ct := w.P.Const(wd, c)
		switch {
		case op == token.SHL:
			return w.mkIntT(wd, w.P.Bin(OpShl, x.T, ct))
		case signed:
			return w.mkIntT(wd, w.P.Bin(OpAShr, x.T, ct))
		default:
			return w.mkIntT(wd, w.P.Bin(OpLShr, x.T, ct))
		}
	}
	// symbolic count
	yt := y.T
	if ySigned {
		neg := w.P.Cmp(OpSlt, yt, w.P.Const(int(y.W), 0))
		if w.decide(neg, "negshift@"+fr.site(instr)) {
			fr.rtPanic(instr, "negative shift amount")
		}
	}
	// bring count to width wd, saturating
	var ct *Term
	if int(y.W) > wd {
		big := w.P.Cmp(OpUle, w.P.Const(int(y.W), uint64(wd)), yt)
		ct = w.P.Ite(big, w.P.Const(wd, uint64(wd)), w.P.Extract(yt, wd-1, 0))
	} else {
		ct = w.P.ZExt(yt, wd)
	}
	xt := w.intTerm(x)
	switch {
	case op == token.SHL:
		return w.mkIntT(wd, w.P.Bin(OpShl, xt, ct))
	case signed:
		return w.mkIntT(wd, w.P.Bin(OpAShr, xt, ct))
	default:
		return w.mkIntT(wd, w.P.Bin(OpLShr, xt, ct))
	}
}

func (w *Worker) floatBinop(fr *frame, instr ssa.Instruction, op token.Token, x, y Int) Value {
	wd := int(x.W)
	if x.T != nil || y.T != nil {
		// the only symbolic float operations in reach: comparison with zero
		if (op == token.EQL || op == token.NEQ) && (x.T == nil || y.T == nil) {
			s, c := x, y
			if x.T == nil {
				s, c = y, x
			}
			if floatOf(c) == 0 {
				t := w.P.FPIsZero(s.T)
				if op == token.NEQ {
					t = w.P.BNot(t)
				}
				return w.mkBoolT(t)
			}
		}
		panic(pathAbort{"engine", "symbolic floating-point operation " + op.String() + " at " + fr.site(instr)})
	}
	a, b := floatOf(x), floatOf(y)
	if wd == 32 {
		a32, b32 := float32(a), float32(b)
		switch op {
		case token.ADD:
			return floatVal(32, float64(a32+b32))
		case token.SUB:
			return floatVal(32, float64(a32-b32))
		case token.MUL:
			return floatVal(32, float64(a32*b32))
		case token.QUO:
			return floatVal(32, float64(a32/b32))
		}
	}
	switch op {
	case token.ADD:
		return floatVal(wd, a+b)
	case token.SUB:
		return floatVal(wd, a-b)
	case token.MUL:
		return floatVal(wd, a*b)
	case token.QUO:
		return floatVal(wd, a/b)
	case token.EQL:
		return mkBool(a == b)
	case token.NEQ:
		return mkBool(a != b)
	case token.LSS:
		return mkBool(a < b)
	case token.LEQ:
		return mkBool(a <= b)
	case token.GTR:
		return mkBool(a > b)
	case token.GEQ:
		return mkBool(a >= b)
	}
	panic(pathAbort{"engine", "floatBinop: unsupported op " + op.String()})
}

func strConcat(a, b Str) Str {
	if a.IsConc() && b.IsConc() {
		return Str{S: a.S + b.S}
	}
	bs := make([]Int, 0, a.Len()+b.Len())
	for i := 0; i < a.Len(); i++ {
		bs = append(bs, a.At(i))
	}
	for i := 0; i < b.Len(); i++ {
		bs = append(bs, b.At(i))
	}
	return Str{B: bs}
}

func (w *Worker) strEq(a, b Str) *Term {
	if a.Len() != b.Len() {
		return w.P.False
	}
	if a.IsConc() && b.IsConc() {
		return w.P.Bool(a.S == b.S)
	}
	n := a.Len()
	ts := make([]*Term, 0, n)
	for i := 0; i < n; i++ {
		x, y := a.At(i), b.At(i)
		if x.T == nil && y.T == nil {
			if x.C != y.C {
				return w.P.False
			}
			continue
		}
		if x.T == y.T && x.T != nil {
			continue
		}
		ts = append(ts, w.P.Cmp(OpEq, w.intTerm(x), w.intTerm(y)))
	}
	return w.P.BAnd(ts...)
}

// valEq builds the equality of two comparable values.
func (w *Worker) valEq(x, y Value) *Term {
	switch x := x.(type) {
	case Int:
		yv := y.(Int)
		if x.T == nil && yv.T == nil {
			return w.P.Bool(x.C == yv.C)
		}
		return w.P.Cmp(OpEq, w.intTerm(x), w.intTerm(yv))
	case Bool:
		return w.P.Cmp(OpEq, w.boolTerm(x), w.boolTerm(y.(Bool)))
	case Str:
		return w.strEq(x, y.(Str))
	case *Value:
		return w.P.Bool(x == y.(*Value))
	case *Map:
		return w.P.Bool(x == y.(*Map))
	case *Chan:
		return w.P.Bool(x == y.(*Chan))
	case UnsafePtr:
		yp := y.(UnsafePtr)
		return w.valEqPtrish(x.P, yp.P)
	case Struct:
		yv := y.(Struct)
		ts := make([]*Term, len(x))
		for i := range x {
			ts[i] = w.valEq(x[i], yv[i])
		}
		return w.P.BAnd(ts...)
	case Array:
		yv := y.(Array)
		ts := make([]*Term, len(x))
		for i := range x {
			ts[i] = w.valEq(x[i], yv[i])
		}
		return w.P.BAnd(ts...)
	case Iface:
		yv := y.(Iface)
		if x.T == nil || yv.T == nil {
			return w.P.Bool(x.T == nil && yv.T == nil)
		}
		if !types.Identical(x.T, yv.T) {
			return w.P.False
		}
		if !types.Comparable(x.T) {
			panic(targetPanic{V: Iface{T: types.Typ[types.String], V: Str{S: "runtime error: comparing uncomparable type " + x.T.String()}}, Msg: "runtime error: comparing uncomparable type " + x.T.String()})
		}
		return w.valEq(x.V, yv.V)
	case Slice:
		// only comparison with nil is legal
		if y == nil {
			return w.P.Bool(x == nil)
		}
		if ys, ok := y.(Slice); ok && ys == nil {
			return w.P.Bool(x == nil)
		}
		if x == nil {
			if ys, ok := y.(Slice); ok {
				return w.P.Bool(ys == nil)
			}
			if _, ok := y.(*LazySlice); ok {
				return w.P.False
			}
		}
	case *LazySlice:
		return w.P.False // never nil
	case *ssa.Function:
		switch y := y.(type) {
		case *ssa.Function:
			return w.P.Bool(x == y)
		case *Closure:
			return w.P.Bool(x == nil && y == nil)
		case *ssa.Builtin:
			return w.P.False
		}
	case *Closure:
		switch y := y.(type) {
		case *ssa.Function:
			return w.P.Bool(x == nil && y == nil)
		case *Closure:
			return w.P.Bool(x == y)
		}
	}
	panic(pathAbort{"engine", fmt.Sprintf("valEq: unsupported %T == %T", x, y)})
}

func (w *Worker) valEqPtrish(x, y Value) *Term {
	if x == nil || y == nil {
		return w.P.Bool(isNilPtrish(x) && isNilPtrish(y))
	}
	if xp, ok := x.(*Value); ok {
		if yp, ok := y.(*Value); ok {
			return w.P.Bool(xp == yp)
		}
	}
	return w.P.False
}

func isNilPtrish(x Value) bool {
	if x == nil {
		return true
	}
	if p, ok := x.(*Value); ok {
		return p == nil
	}
	return false
}

func (w *Worker) unop(fr *frame, instr *ssa.UnOp, x Value) Value {
	switch instr.Op {
	case token.ARROW:
		return w.chanRecv(fr, instr, x.(*Chan), instr.CommaOk)
	case token.MUL:
		p := x.(*Value)
		if p == nil {
			fr.rtPanic(instr, "invalid memory address or nil pointer dereference")
		}
		w.noteLoad(p)
		return load(p)
	case token.NOT:
		b := x.(Bool)
		if b.T == nil {
			return mkBool(!b.C)
		}
		return w.mkBoolT(w.P.BNot(b.T))
	case token.SUB:
		i := x.(Int)
		_, _, isFloat := widthOf(instr.X.Type())
		if isFloat {
			if i.T != nil {
				return w.mkIntT(int(i.W), w.P.Bin(OpXor, i.T, w.P.Const(int(i.W), uint64(1)<<(i.W-1))))
			}
			return floatVal(int(i.W), -floatOf(i))
		}
		if i.T != nil {
			return w.mkIntT(int(i.W), w.P.Neg(i.T))
		}
		return mkInt(int(i.W), -i.C)
	case token.XOR:
		i := x.(Int)
		if i.T != nil {
			return w.mkIntT(int(i.W), w.P.Not(i.T))
		}
		return mkInt(int(i.W), ^i.C)
	}
	panic(pathAbort{"engine", "unop: unsupported " + instr.Op.String()})
}

func (w *Worker) conv(fr *frame, instr ssa.Instruction, tDst, tSrc types.Type, x Value) Value {
	utSrc := tSrc.Underlying()
	utDst := tDst.Underlying()
	switch s := utSrc.(type) {
	case *types.Pointer:
		if b, ok := utDst.(*types.Basic); ok && b.Kind() == types.UnsafePointer {
			return UnsafePtr{P: x}
		}
	case *types.Slice:
		// []byte / []rune -> string
		sl := w.asSlice(x)
		if eb, ok := s.Elem().Underlying().(*types.Basic); ok && eb.Kind() == types.Uint8 {
			bs := make([]Int, len(sl))
			for i := range sl {
				bs[i] = sl[i].(Int)
			}
			return normStr(bs)
		}
		// []rune
		rs := make([]rune, len(sl))
		for i := range sl {
			rs[i] = rune(w.concInt(sl[i].(Int), "rune"))
		}
		return Str{S: string(rs)}
	case *types.Basic:
		if s.Kind() == types.UnsafePointer {
			if _, ok := utDst.(*types.Pointer); ok {
				up := x.(UnsafePtr)
				if up.P == nil {
					return (*Value)(nil)
				}
				return up.P
			}
			if b, ok := utDst.(*types.Basic); ok && b.Kind() == types.UnsafePointer {
				return x
			}
			if b, ok := utDst.(*types.Basic); ok && b.Kind() == types.Uintptr {
				panic(pathAbort{"engine", "unsafe.Pointer -> uintptr at " + fr.site(instr)})
			}
		}
		if s.Info()&types.IsString != 0 {
			str := x.(Str)
			if d, ok := utDst.(*types.Slice); ok {
				if eb, ok := d.Elem().Underlying().(*types.Basic); ok && eb.Kind() == types.Uint8 {
					out := make(Slice, str.Len())
					for i := range out {
						bi := str.At(i)
						if bi.T == nil {
							out[i] = byteVal(byte(bi.C))
						} else {
							out[i] = bi
						}
					}
					return out
				}
				// []rune
				if !str.IsConc() {
					panic(pathAbort{"engine", "symbolic string -> []rune"})
				}
				var out Slice = Slice{}
				for _, r := range str.S {
					out = append(out, mkInt(32, uint64(r)))
				}
				return out
			}
			if d, ok := utDst.(*types.Basic); ok && d.Info()&types.IsString != 0 {
				return x
			}
		}
		if s.Info()&(types.IsInteger|types.IsFloat) != 0 {
			i := x.(Int)
			sw, sSigned, sFloat := widthOf(s)
			switch d := utDst.(type) {
			case *types.Basic:
				if d.Info()&types.IsString != 0 {
					// integer -> string
					v := w.concInt(i, "int->string")
					r := rune(sext64(v, sw))
					if !sSigned {
						r = rune(v)
						if v > utf8.MaxRune {
							r = utf8.RuneError
						}
					}
					return Str{S: string(r)}
				}
				if d.Kind() == types.UnsafePointer {
					panic(pathAbort{"engine", "uintptr -> unsafe.Pointer at " + fr.site(instr)})
				}
				dw, dSigned, dFloat := widthOf(d)
				switch {
				case !sFloat && !dFloat:
					if i.T == nil {
						if sSigned {
							return mkInt(dw, uint64(sext64(i.C, sw)))
						}
						return mkInt(dw, i.C)
					}
					if sSigned {
						return w.mkIntT(dw, w.P.SExt(i.T, dw))
					}
					return w.mkIntT(dw, w.P.ZExt(i.T, dw))
				case sFloat && dFloat:
					if i.T != nil {
						if sw == dw {
							return i
						}
						panic(pathAbort{"engine", "symbolic float width conversion at " + fr.site(instr)})
					}
					return floatVal(dw, floatOf(i))
				case !sFloat && dFloat:
					if i.T != nil {
						panic(pathAbort{"engine", "symbolic int->float at " + fr.site(instr)})
					}
					if sSigned {
						return floatVal(dw, float64(sext64(i.C, sw)))
					}
					return floatVal(dw, float64(i.C))
				case sFloat && !dFloat:
					if i.T != nil {
						panic(pathAbort{"engine", "symbolic float->int at " + fr.site(instr)})
					}
					f := floatOf(i)
					if dSigned {
						return mkInt(dw, uint64(int64(f)))
					}
					return mkInt(dw, uint64(f))
				}
			}
		}
	}
	panic(pathAbort{"engine", fmt.Sprintf("conv: unsupported %v -> %v at %s", tSrc, tDst, fr.site(instr))})
}

func (w *Worker) typeAssert(fr *frame, instr *ssa.TypeAssert, itf Iface) Value {
	var v Value
	fail := 0
	if itf.T == nil {
		fail = 1
	} else if idst, ok := instr.AssertedType.Underlying().(*types.Interface); ok {
		v = itf
		if !w.implements(itf.T, idst) {
			fail = 2
		}
	} else if w.identical(itf.T, instr.AssertedType) {
		v = itf.V
	} else {
		fail = 3
	}
	if fail != 0 {
		if !instr.CommaOk {
			switch fail {
			case 1:
				fr.rtPanic(instr, fmt.Sprintf("interface conversion: interface is nil, not %s", instr.AssertedType))
			case 2:
				fr.rtPanic(instr, fmt.Sprintf("interface conversion: %v is not %v: missing method", itf.T, instr.AssertedType))
			default:
				fr.rtPanic(instr, fmt.Sprintf("interface conversion: interface is %s, not %s", itf.T, instr.AssertedType))
			}
		}
		return Tuple{zero(instr.AssertedType), mkBool(false)}
	}
	if instr.CommaOk {
		return Tuple{v, mkBool(true)}
	}
	return v
}

type typePair struct{ a, b types.Type }

func (w *Worker) identical(a, b types.Type) bool {
	if a == b {
		return true
	}
	k := typePair{a, b}
	if r, ok := w.identCache[k]; ok {
		return r
	}
	r := types.Identical(a, b)
	w.identCache[k] = r
	return r
}

func (w *Worker) implements(t types.Type, iface *types.Interface) bool {
	type key struct {
		t types.Type
		i *types.Interface
	}
	k := key{t, iface}
	if r, ok := w.implCache[k]; ok {
		return r
	}
	r := true
	mset := w.E.Prog.MethodSets.MethodSet(t)
	for i := 0; i < iface.NumMethods(); i++ {
		m := iface.Method(i)
		if mset.Lookup(m.Pkg(), m.Name()) == nil {
			r = false
			break
		}
	}
	w.implCache[k] = r
	return r
}

func (w *Worker) callBuiltin(caller *frame, pos token.Pos, fn *ssa.Builtin, args []Value) Value {
	switch fn.Name() {
	case "append":
		if len(args) == 1 {
			return args[0]
		}
		dst := w.asSlice(args[0])
		if s, ok := args[1].(Str); ok {
			n := s.Len()
			if n == 0 {
				return dst
			}
			out := growSlice(dst, n)
			for i := 0; i < n; i++ {
				bi := s.At(i)
				if bi.T == nil {
					out[len(dst)+i] = byteVal(byte(bi.C))
				} else {
					out[len(dst)+i] = bi
				}
			}
			return out
		}
		src := w.asSlice(args[1])
		if len(src) == 0 {
			return dst
		}
		out := growSlice(dst, len(src))
		for i := range src {
			out[len(dst)+i] = copyVal(src[i])
		}
		return out

	case "copy":
		dst := w.asSlice(args[0])
		if s, ok := args[1].(Str); ok {
			n := len(dst)
			if s.Len() < n {
				n = s.Len()
			}
			for i := 0; i < n; i++ {
				bi := s.At(i)
				if bi.T == nil {
					dst[i] = byteVal(byte(bi.C))
				} else {
					dst[i] = bi
				}
			}
			return mkInt(64, uint64(n))
		}
		src := w.asSlice(args[1])
		n := len(dst)
		if len(src) < n {
			n = len(src)
		}
		if n > 0 && &dst[0] != &src[0] {
			// memmove semantics: handle overlap
			tmp := make([]Value, n)
			for i := 0; i < n; i++ {
				tmp[i] = copyVal(src[i])
			}
			for i := 0; i < n; i++ {
				store(&dst[i], tmp[i])
			}
		}
		return mkInt(64, uint64(n))

	case "close":
		w.chanClose(caller, args[0].(*Chan))
		return nil

	case "delete":
		m := args[0].(*Map)
		if m != nil {
			w.noteMap(m, true)
			w.mapDelete(m, args[1])
		}
		return nil

	case "print", "println":
		return nil

	case "len":
		switch x := args[0].(type) {
		case Str:
			return mkInt(64, uint64(x.Len()))
		case Array:
			return mkInt(64, uint64(len(x)))
		case *Value:
			return mkInt(64, uint64(len((*x).(Array))))
		case Slice:
			return mkInt(64, uint64(len(x)))
		case *LazySlice:
			if x.done {
				return mkInt(64, uint64(len(x.conc)))
			}
			return Int{W: 64, T: x.Len}
		case *Map:
			if x == nil {
				return mkInt(64, 0)
			}
			w.noteMap(x, false)
			return mkInt(64, uint64(x.Len()))
		case *Chan:
			if x == nil {
				return mkInt(64, 0)
			}
			return mkInt(64, uint64(len(x.Q)))
		}
		panic(pathAbort{"engine", fmt.Sprintf("len: illegal operand %T", args[0])})

	case "cap":
		switch x := args[0].(type) {
		case Array:
			return mkInt(64, uint64(len(x)))
		case *Value:
			return mkInt(64, uint64(len((*x).(Array))))
		case Slice:
			return mkInt(64, uint64(cap(x)))
		case *LazySlice:
			if x.done {
				return mkInt(64, uint64(cap(x.conc)))
			}
			return Int{W: 64, T: x.Len}
		case *Chan:
			if x == nil {
				return mkInt(64, 0)
			}
			return mkInt(64, uint64(x.Cap))
		}
		panic(pathAbort{"engine", fmt.Sprintf("cap: illegal operand %T", args[0])})

	case "min", "max":
		res := args[0]
		sig := fn.Type().(*types.Signature)
		t := sig.Params().At(0).Type()
		for _, a := range args[1:] {
			var op token.Token = token.LSS
			if fn.Name() == "max" {
				op = token.GTR
			}
			c := w.binop(caller, nil, op, t, a, res).(Bool)
			if w.decideBool(c, "minmax") {
				res = a
			}
		}
		return res

	case "clear":
		switch x := args[0].(type) {
		case *Map:
			if x != nil {
				x.clear()
			}
		case Slice:
			panic(pathAbort{"engine", "clear(slice) unsupported"})
		}
		return nil

	case "panic":
		panic(targetPanic{V: args[0], Site: w.posStr(pos), Msg: panicMsg(args[0])})

	case "recover":
		return w.doRecover(caller)

	case "ssa:wrapnilchk":
		recv := args[0]
		if p, ok := recv.(*Value); ok && p == nil {
			msg := fmt.Sprintf("value method (%s).%s called using nil pointer", ValString(args[1]), ValString(args[2]))
			panic(targetPanic{V: Iface{T: types.Typ[types.String], V: Str{S: msg}}, Site: w.posStr(pos), Msg: msg})
		}
		return recv

	case "ssa:deferstack":
		return &caller.defers

	case "String": // unsafe.String(ptr, len)
		p := args[0].(*Value)
		n := int(w.concInt(args[1].(Int), "unsafe.String"))
		if n == 0 {
			return Str{}
		}
		sl := w.ptrRun(p, n)
		bs := make([]Int, n)
		for i := range bs {
			bs[i] = sl[i].(Int)
		}
		return normStr(bs)

	case "StringData":
		panic(pathAbort{"engine", "unsafe.StringData unsupported"})

	case "SliceData":
		s := w.asSlice(args[0])
		if cap(s) == 0 {
			return (*Value)(nil)
		}
		s = s[:1]
		w.ptrSlices[&s[0]] = args[0].(Slice)[:cap(args[0].(Slice))]
		return &s[0]

	case "Slice": // unsafe.Slice(ptr, len)
		p := args[0].(*Value)
		n := int(w.concInt(args[1].(Int), "unsafe.Slice"))
		if p == nil {
			return Slice(nil)
		}
		return Slice(w.ptrRun(p, n))
	}
	panic(pathAbort{"engine", "unknown built-in: " + fn.Name()})
}

// ptrRun recovers the run of n cells starting at the element pointer p, which
// must have been produced by unsafe.SliceData (recorded) .
func (w *Worker) ptrRun(p *Value, n int) Slice {
	if s, ok := w.ptrSlices[p]; ok && len(s) >= n {
		return s[:n]
	}
	panic(pathAbort{"engine", "unsafe pointer arithmetic on an unknown element pointer"})
}

func growSlice(dst Slice, n int) Slice {
	need := len(dst) + n
	if need <= cap(dst) {
		return dst[:need]
	}
	nc := cap(dst) * 2
	if nc < need {
		nc = need
	}
	out := make(Slice, need, nc)
	copy(out, dst)
	return out
}

func (w *Worker) doRecover(caller *frame) Value {
	if caller != nil && !caller.panicking && caller.caller != nil && caller.caller.panicking {
		caller.caller.panicking = false
		p := caller.caller.panic
		caller.caller.panic = nil
		switch p := p.(type) {
		case targetPanic:
			return p.V
		}
		panic(pathAbort{"engine", fmt.Sprintf("unexpected panic type %T in recover", p)})
	}
	return Iface{}
}

// ---------------------------------------------------------------------------
// iterators

type iter interface {
	next(w *Worker) Value
}

type strIter struct {
	s   Str
	pos int
}

func (it *strIter) next(w *Worker) Value {
	if it.pos >= it.s.Len() {
		return Tuple{mkBool(false), mkInt(64, 0), mkInt(32, 0)}
	}
	if it.s.IsConc() {
		r, sz := utf8.DecodeRuneInString(it.s.S[it.pos:])
		p := it.pos
		it.pos += sz
		return Tuple{mkBool(true), mkInt(64, uint64(p)), mkInt(32, uint64(r))}
	}
	// symbolic (or partly symbolic) bytes: UTF-8 decoding exactly as
	// utf8.DecodeRuneInString does it, with the byte classes as path decisions
	P := w.P
	p := it.pos
	n := it.s.Len()
	bt := func(i int) *Term {
		b := it.s.At(i)
		if b.T != nil {
			return b.T
		}
		return P.Const(8, b.C)
	}
	in := func(t *Term, lo, hi uint64) *Term {
		return P.BAnd(P.Cmp(OpUle, P.Const(8, lo), t), P.Cmp(OpUle, t, P.Const(8, hi)))
	}
	runeErr := func() Value {
		it.pos = p + 1
		return Tuple{mkBool(true), mkInt(64, uint64(p)), mkInt(32, 0xFFFD)}
	}
	low := func(t *Term, mask uint64) *Term { return P.ZExt(P.Bin(OpAnd, t, P.Const(8, mask)), 32) }
	shl := func(t *Term, k uint64) *Term { return P.Bin(OpShl, t, P.Const(32, k)) }
	b0 := bt(p)
	if !w.decide(P.Cmp(OpUle, P.Const(8, 0x80), b0), "utf8-lead-byte") {
		it.pos = p + 1
		return Tuple{mkBool(true), mkInt(64, uint64(p)), w.mkIntT(32, P.ZExt(b0, 32))}
	}
	classes := []struct {
		lo, hi   uint64
		sz       int
		alo, ahi uint64
	}{
		{0xC2, 0xDF, 2, 0x80, 0xBF}, {0xE0, 0xE0, 3, 0xA0, 0xBF}, {0xE1, 0xEC, 3, 0x80, 0xBF}, {0xED, 0xED, 3, 0x80, 0x9F},
		{0xEE, 0xEF, 3, 0x80, 0xBF}, {0xF0, 0xF0, 4, 0x90, 0xBF}, {0xF1, 0xF3, 4, 0x80, 0xBF}, {0xF4, 0xF4, 4, 0x80, 0x8F},
	}
	for _, c := range classes {
		if !w.decide(in(b0, c.lo, c.hi), "utf8-class") {
			continue
		}
		if p+c.sz > n {
			return runeErr()
		}
		b1 := bt(p + 1)
		if !w.decide(in(b1, c.alo, c.ahi), "utf8-second-byte") {
			return runeErr()
		}
		var r *Term
		switch c.sz {
		case 2:
			r = P.Bin(OpOr, shl(low(b0, 0x1F), 6), low(b1, 0x3F))
		case 3:
			b2 := bt(p + 2)
			if !w.decide(in(b2, 0x80, 0xBF), "utf8-third-byte") {
				return runeErr()
			}
			r = P.Bin(OpOr, P.Bin(OpOr, shl(low(b0, 0x0F), 12), shl(low(b1, 0x3F), 6)), low(b2, 0x3F))
		case 4:
			b2, b3 := bt(p+2), bt(p+3)
			if !w.decide(in(b2, 0x80, 0xBF), "utf8-third-byte") {
				return runeErr()
			}
			if !w.decide(in(b3, 0x80, 0xBF), "utf8-fourth-byte") {
				return runeErr()
			}
			r = P.Bin(OpOr, P.Bin(OpOr, shl(low(b0, 0x07), 18), shl(low(b1, 0x3F), 12)), P.Bin(OpOr, shl(low(b2, 0x3F), 6), low(b3, 0x3F)))
		}
		it.pos = p + c.sz
		return Tuple{mkBool(true), mkInt(64, uint64(p)), w.mkIntT(32, r)}
	}
	return runeErr()
}

type mapIter struct {
	m   *Map
	pos int
}

func (it *mapIter) next(w *Worker) Value {
	for it.m != nil && it.pos < len(it.m.entries) {
		e := it.m.entries[it.pos]
		it.pos++
		if e.deleted {
			continue
		}
		return Tuple{mkBool(true), copyVal(e.key), copyVal(e.val)}
	}
	return Tuple{mkBool(false), nil, nil}
}

func (w *Worker) rangeIter(fr *frame, instr *ssa.Range, x Value) iter {
	switch x := x.(type) {
	case *Map:
		w.noteMap(x, false)
		return &mapIter{m: x}
	case Str:
		return &strIter{s: x}
	}
	panic(pathAbort{"engine", fmt.Sprintf("cannot range over %T", x)})
}
