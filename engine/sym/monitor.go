package sym

import (
	"fmt"
	"go/types"
	"sort"
	"strings"
)

// Lock-discipline monitor (C13, C14).  A harness marks a region with
// sx.MonitorBegin(role, selfConcurrent, roots...) / sx.MonitorEnd(): every cell
// reachable from the roots at entry is "shared" and gets a stable name (field
// path from the root, indices abstracted).  Inside the region every load,
// store and map operation on a shared location is logged with the set of
// shared mutexes held; sync/atomic accesses are logged as atomic.  After all
// paths of all harness functions of the property, RaceCandidates() applies
// the lockset rule across roles.

type access struct {
	Write  bool
	Atomic bool
	Locks  string // sorted names of held mutexes, "R:" prefix for read-held
	Site   string
}

type roleLog struct {
	Self bool // the role may run concurrently with itself
	Acc  map[string]map[access]bool
}

type monitor struct {
	active bool
	role   string
	self   bool
	names  map[*Value]string
	maps   map[*Map]string
	held   map[*Value]int // >0: write-held; <0: -readers
	muName map[*Value]string
}

// MonitorLog is the engine-wide aggregation (location -> role -> accesses).
type MonitorLog struct {
	Roles map[string]*roleLog
	First map[string]*Violation // location|site -> a path that performs the access
}

func (w *Worker) monitorBegin(role string, self bool, roots []Value) {
	m := &monitor{active: true, role: role, self: self, names: map[*Value]string{}, maps: map[*Map]string{}, held: map[*Value]int{}, muName: map[*Value]string{}}
	// objects the harness declared to be the environment (e.g. its fake
	// net.Conn, which stands for a concurrency-safe socket) are not shared state
	if ign, ok := w.pathState["monitorIgnore"].([]Value); ok {
		im := &monitor{names: map[*Value]string{}, maps: map[*Map]string{}}
		for _, r := range ign {
			w.walkShared(im, r, "ignored", 0)
		}
		for c := range im.names {
			m.names[c] = ""
		}
		for mp := range im.maps {
			m.maps[mp] = ""
		}
	}
	for i, r := range roots {
		w.walkShared(m, r, fmt.Sprintf("root%d", i), 0)
	}
	w.mon = m
	w.lockHook = w.monLock
}

func isMutexType(t types.Type) bool {
	s := types.TypeString(t, nil)
	return s == "sync.Mutex" || s == "sync.RWMutex"
}

func (w *Worker) walkShared(m *monitor, v Value, path string, depth int) {
	if depth > 40 {
		return
	}
	switch x := v.(type) {
	case Iface:
		if x.T != nil {
			w.walkShared(m, x.V, path, depth+1)
		}
	case *Value:
		if x == nil {
			return
		}
		if _, seen := m.names[x]; seen {
			return
		}
		m.names[x] = path
		w.walkCell(m, x, path, depth+1)
	case Slice:
		for i := range x[:cap(x)] {
			c := &x[:cap(x)][i]
			if _, seen := m.names[c]; seen {
				return
			}
			m.names[c] = path + "[*]"
			w.walkCell(m, c, path+"[*]", depth+1)
		}
	case *Map:
		if x == nil {
			return
		}
		if _, seen := m.maps[x]; seen {
			return
		}
		m.maps[x] = path + "{}"
		for _, e := range x.entries {
			if !e.deleted {
				w.walkShared(m, e.key, path+"{key}", depth+1)
				w.walkShared(m, e.val, path+"{}", depth+1)
			}
		}
	case Struct:
		for i := range x {
			w.walkShared(m, x[i], fmt.Sprintf("%s.f%d", path, i), depth+1)
		}
	case Array:
		for i := range x {
			w.walkShared(m, x[i], path+"[*]", depth+1)
		}
	case *Closure:
		if x != nil {
			for i, e := range x.Env {
				w.walkShared(m, e, fmt.Sprintf("%s.env%d", path, i), depth+1)
			}
		}
	}
}

// walkCell names the cells inside an aggregate stored in cell c.
func (w *Worker) walkCell(m *monitor, c *Value, path string, depth int) {
	switch x := (*c).(type) {
	case Struct:
		for i := range x {
			f := &x[i]
			m.names[f] = fmt.Sprintf("%s.f%d", path, i)
			w.walkCell(m, f, m.names[f], depth+1)
		}
	case Array:
		for i := range x {
			f := &x[i]
			m.names[f] = path + "[*]"
			w.walkCell(m, f, m.names[f], depth+1)
		}
	default:
		w.walkShared(m, *c, path+"->", depth+1)
	}
}

func (w *Worker) monLock(what string, mu *Value, fr *frame) {
	m := w.mon
	if m == nil || !m.active {
		return
	}
	name, shared := m.names[mu]
	if !shared || name == "" {
		return // a private mutex does not order shared accesses
	}
	m.muName[mu] = name
	site := ""
	if fr != nil && fr.caller != nil {
		site = fr.caller.fn.String() + "@" + w.posStr(fr.callpos)
	}
	switch what {
	case "Mutex.Lock", "RWMutex.Lock":
		if m.held[mu] != 0 {
			w.reportViolation("deadlock", "lock-acquired-while-held:"+name, site, "mutex "+name+" acquired while already held by the same operation (self-deadlock)", nil)
			panic(pathAbort{"done", "self-deadlock"})
		}
		m.held[mu] = 1
	case "RWMutex.RLock":
		if m.held[mu] > 0 {
			w.reportViolation("deadlock", "rlock-while-write-held:"+name, site, "RLock on "+name+" while write-held by the same operation", nil)
			panic(pathAbort{"done", "self-deadlock"})
		}
		m.held[mu]--
	case "Mutex.Unlock", "RWMutex.Unlock":
		if m.held[mu] != 1 {
			panic(targetPanic{V: Iface{T: types.Typ[types.String], V: Str{S: "sync: unlock of unlocked mutex"}}, Msg: "fatal error: sync: unlock of unlocked mutex", Site: site})
		}
		m.held[mu] = 0
	case "RWMutex.RUnlock":
		if m.held[mu] >= 0 {
			panic(targetPanic{V: Iface{T: types.Typ[types.String], V: Str{S: "sync: RUnlock of unlocked RWMutex"}}, Msg: "fatal error: sync: RUnlock of unlocked RWMutex", Site: site})
		}
		m.held[mu]++
	}
}

func (w *Worker) lockset() string {
	var ls []string
	for mu, h := range w.mon.held {
		if h > 0 {
			ls = append(ls, w.mon.muName[mu])
		} else if h < 0 {
			ls = append(ls, "R:"+w.mon.muName[mu])
		}
	}
	sort.Strings(ls)
	return strings.Join(ls, ",")
}

func (w *Worker) monAccess(loc string, write, atomic bool) {
	m := w.mon
	site := ""
	if w.curFrame != nil && w.curFrame.cur != nil {
		site = w.curFrame.fn.String() + "@" + w.posStr(w.curFrame.cur.Pos())
	}
	a := access{Write: write, Atomic: atomic, Locks: w.lockset(), Site: site}
	w.E.logAccess(w, m.role, m.self, loc, a)
}

func (w *Worker) noteStore(p *Value) {
	if w.frozen != nil && !w.inSetup && w.frozen[p] {
		w.dirty = true // a path wrote into setup state: the world is rebuilt before the next path
	}
	if w.mon != nil && w.mon.active {
		if loc, ok := w.mon.names[p]; ok && loc != "" && !w.isMutexCell(p) {
			w.monAccess(loc, true, false)
		}
	}
}

func (w *Worker) noteLoad(p *Value) {
	if w.mon != nil && w.mon.active {
		if loc, ok := w.mon.names[p]; ok && loc != "" && !w.isMutexCell(p) {
			w.monAccess(loc, false, false)
		}
	}
}

func (w *Worker) noteAtomic(p *Value, write bool) {
	if w.mon != nil && w.mon.active {
		if loc, ok := w.mon.names[p]; ok && loc != "" {
			w.monAccess(loc, write, true)
		}
	}
}

func (w *Worker) noteMap(m *Map, write bool) {
	if write && w.frozenMaps != nil && !w.inSetup && w.frozenMaps[m] {
		w.dirty = true
	}
	if w.mon != nil && w.mon.active && m != nil {
		if loc, ok := w.mon.maps[m]; ok && loc != "" {
			w.monAccess(loc, write, false)
		}
	}
}

func (w *Worker) isMutexCell(p *Value) bool {
	_, ok := w.mon.muName[p]
	return ok
}

func (w *Worker) monitorEnd(fr *frame) {
	m := w.mon
	if m == nil {
		return
	}
	for mu, h := range m.held {
		if h != 0 {
			w.reportViolation("deadlock", "lock-held-at-return:"+m.muName[mu], w.callerSite(fr), "mutex "+m.muName[mu]+" is still held when the operation returns", nil)
		}
	}
	m.active = false
	w.mon = nil
	w.lockHook = nil
}

func (e *Engine) logAccess(w *Worker, role string, self bool, loc string, a access) {
	e.mu.Lock()
	defer e.mu.Unlock()
	if e.Mon == nil {
		e.Mon = &MonitorLog{Roles: map[string]*roleLog{}, First: map[string]*Violation{}}
	}
	rl := e.Mon.Roles[role]
	if rl == nil {
		rl = &roleLog{Self: self, Acc: map[string]map[access]bool{}}
		e.Mon.Roles[role] = rl
	}
	if rl.Acc[loc] == nil {
		rl.Acc[loc] = map[access]bool{}
	}
	if !rl.Acc[loc][a] {
		rl.Acc[loc][a] = true
		k := role + "|" + loc + "|" + a.Site
		if _, ok := e.Mon.First[k]; !ok {
			e.Mon.First[k] = &Violation{Harness: e.Harness, Kind: "race", Label: loc, Site: a.Site, Draws: append([]Draw(nil), w.draws...), Decisions: append([]Decision(nil), w.taken...)}
		}
	}
}

// RaceCandidate is a pair of conflicting accesses without a common lock.
type RaceCandidate struct {
	Loc          string
	RoleA, RoleB string
	A, B         access
}

func commonLock(a, b access) bool {
	la, lb := strings.Split(a.Locks, ","), strings.Split(b.Locks, ",")
	for _, x := range la {
		if x == "" {
			continue
		}
		for _, y := range lb {
			nx, ny := strings.TrimPrefix(x, "R:"), strings.TrimPrefix(y, "R:")
			if nx != ny {
				continue
			}
			// two read-holders do not exclude each other
			if strings.HasPrefix(x, "R:") && strings.HasPrefix(y, "R:") {
				continue
			}
			return true
		}
	}
	return false
}

// MergeMonitor folds another engine's log into this one (one property, several harness functions).
func MergeMonitor(dst, src *MonitorLog) *MonitorLog {
	if src == nil {
		return dst
	}
	if dst == nil {
		return src
	}
	for r, rl := range src.Roles {
		d := dst.Roles[r]
		if d == nil {
			dst.Roles[r] = rl
			continue
		}
		for loc, as := range rl.Acc {
			if d.Acc[loc] == nil {
				d.Acc[loc] = map[access]bool{}
			}
			for a := range as {
				d.Acc[loc][a] = true
			}
		}
	}
	for k, v := range src.First {
		if _, ok := dst.First[k]; !ok {
			dst.First[k] = v
		}
	}
	return dst
}

// RaceCandidates applies the lockset rule: two accesses to one location from
// roles that may run concurrently, at least one a write, not both atomic,
// no common lock.
func (ml *MonitorLog) RaceCandidates() []RaceCandidate {
	var out []RaceCandidate
	if ml == nil {
		return nil
	}
	var roles []string
	for r := range ml.Roles {
		roles = append(roles, r)
	}
	sort.Strings(roles)
	seen := map[string]bool{}
	for i, ra := range roles {
		for j := i; j < len(roles); j++ {
			rb := roles[j]
			if ra == rb && !ml.Roles[ra].Self {
				continue
			}
			for loc, as := range ml.Roles[ra].Acc {
				bs := ml.Roles[rb].Acc[loc]
				for a := range as {
					for b := range bs {
						if !a.Write && !b.Write {
							continue
						}
						if a.Atomic && b.Atomic {
							continue
						}
						if commonLock(a, b) {
							continue
						}
						k := loc + "|" + a.Site + "|" + b.Site
						k2 := loc + "|" + b.Site + "|" + a.Site
						if seen[k] || seen[k2] {
							continue
						}
						seen[k] = true
						out = append(out, RaceCandidate{Loc: loc, RoleA: ra, RoleB: rb, A: a, B: b})
					}
				}
			}
		}
	}
	sort.Slice(out, func(i, j int) bool {
		if out[i].Loc != out[j].Loc {
			return out[i].Loc < out[j].Loc
		}
		return out[i].A.Site+out[i].B.Site < out[j].A.Site+out[j].B.Site
	})
	return out
}

// Summary returns per-role counts for the evidence.
func (ml *MonitorLog) Summary() map[string]interface{} {
	if ml == nil {
		return nil
	}
	out := map[string]interface{}{}
	for r, rl := range ml.Roles {
		locs, unlockedReads, lockedWrites, atomics := 0, 0, 0, 0
		for _, as := range rl.Acc {
			locs++
			for a := range as {
				switch {
				case a.Atomic:
					atomics++
				case a.Write && a.Locks != "":
					lockedWrites++
				case !a.Write && a.Locks == "":
					unlockedReads++
				}
			}
		}
		out[r] = map[string]int{"shared_locations_accessed": locs, "locked_write_sites": lockedWrites, "unlocked_read_sites": unlockedReads, "atomic_sites": atomics}
	}
	return out
}
