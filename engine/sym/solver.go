package sym

import (
	"bufio"
	"fmt"
	"io"
	"os/exec"
	"strconv"
	"strings"
	"time"
)

// Result of a check-sat.
type Result int

const (
	Unsat Result = iota
	Sat
	Unknown
)

func (r Result) String() string { return [...]string{"unsat", "sat", "unknown"}[r] }

// Solver is one long-lived SMT solver process driven over stdin/stdout.
type Solver struct {
	Kind     string // "z3", "z3-new", "cvc5"
	cmd      *exec.Cmd
	in       io.WriteCloser
	out      *bufio.Reader
	declared []map[string]bool // per push level
	level    int
	Queries  int
	BySat    [3]int
	Time     time.Duration
	Log      io.Writer
	dead     bool
}

func StartSolver(kind string, timeoutMs int) (*Solver, error) {
	var cmd *exec.Cmd
	switch kind {
	case "z3":
		cmd = exec.Command("z3", "-in", "-t:"+strconv.Itoa(timeoutMs))
	case "z3-new":
		cmd = exec.Command("z3-new", "-in", "-t:"+strconv.Itoa(timeoutMs))
	case "cvc5":
		cmd = exec.Command("cvc5", "--incremental", "--lang=smt2", "--produce-models", "--tlimit-per="+strconv.Itoa(timeoutMs))
	default:
		return nil, fmt.Errorf("unknown solver %q", kind)
	}
	in, err := cmd.StdinPipe()
	if err != nil {
		return nil, err
	}
	out, err := cmd.StdoutPipe()
	if err != nil {
		return nil, err
	}
	cmd.Stderr = cmd.Stdout
	if err := cmd.Start(); err != nil {
		return nil, err
	}
	s := &Solver{Kind: kind, cmd: cmd, in: in, out: bufio.NewReaderSize(out, 1<<16)}
	s.declared = []map[string]bool{{}}
	if kind == "cvc5" {
		s.send("(set-logic ALL)")
	}
	s.send("(set-option :produce-models true)")
	return s, nil
}

func (s *Solver) Close() {
	if s == nil || s.dead {
		return
	}
	s.dead = true
	s.in.Close()
	s.cmd.Process.Kill()
	s.cmd.Wait()
}

func (s *Solver) send(line string) {
	if s.Log != nil {
		fmt.Fprintln(s.Log, line)
	}
	io.WriteString(s.in, line)
	io.WriteString(s.in, "\n")
}

func (s *Solver) Push() {
	s.send("(push 1)")
	s.level++
	s.declared = append(s.declared, map[string]bool{})
}

func (s *Solver) Pop() {
	s.send("(pop 1)")
	s.level--
	s.declared = s.declared[:len(s.declared)-1]
}

func (s *Solver) isDeclared(n string) bool {
	for _, m := range s.declared {
		if m[n] {
			return true
		}
	}
	return false
}

func (s *Solver) declareVars(t *Term) {
	var vars []*Term
	CollectVars(t, map[*Term]bool{}, &vars)
	for _, v := range vars {
		if !s.isDeclared(v.Name) {
			s.send(fmt.Sprintf("(declare-const %s %s)", smtName(v.Name), sortOf(v.W)))
			s.declared[len(s.declared)-1][v.Name] = true
		}
	}
}

func (s *Solver) Assert(t *Term) {
	s.declareVars(t)
	s.send("(assert " + SMT(t) + ")")
}

// readReply reads one reply: a single atom line, or a balanced s-expression.
func (s *Solver) readReply() (string, error) {
	var sb strings.Builder
	depth := 0
	started := false
	for {
		line, err := s.out.ReadString('\n')
		if err != nil {
			return sb.String(), err
		}
		trim := strings.TrimSpace(line)
		if trim == "" && !started {
			continue
		}
		started = true
		sb.WriteString(line)
		inStr := false
		for _, c := range line {
			switch {
			case c == '"' || c == '|':
				inStr = !inStr
			case inStr:
			case c == '(':
				depth++
			case c == ')':
				depth--
			}
		}
		if depth <= 0 {
			return strings.TrimSpace(sb.String()), nil
		}
	}
}

// Check runs check-sat under the current assertions.
func (s *Solver) Check() (Result, error) {
	t0 := time.Now()
	s.send("(check-sat)")
	rep, err := s.readReply()
	s.Time += time.Since(t0)
	s.Queries++
	if err != nil {
		return Unknown, fmt.Errorf("solver %s died: %v (%q)", s.Kind, err, rep)
	}
	if strings.Contains(rep, "(error") {
		return Unknown, fmt.Errorf("solver %s error: %s", s.Kind, rep)
	}
	var r Result
	switch rep {
	case "sat":
		r = Sat
	case "unsat":
		r = Unsat
	default:
		r = Unknown
	}
	s.BySat[r]++
	return r, nil
}

// CheckWith runs check-sat with an extra assertion in a fresh scope.
func (s *Solver) CheckWith(extra *Term) (Result, error) {
	s.Push()
	s.Assert(extra)
	r, err := s.Check()
	s.Pop()
	return r, err
}

// Values returns the model values of the given variables; must follow a Sat.
func (s *Solver) Values(vars []*Term) (map[string]uint64, error) {
	res := map[string]uint64{}
	const chunk = 400
	for i := 0; i < len(vars); i += chunk {
		j := i + chunk
		if j > len(vars) {
			j = len(vars)
		}
		var sb strings.Builder
		sb.WriteString("(get-value (")
		n := 0
		for _, v := range vars[i:j] {
			if !s.isDeclared(v.Name) {
				continue // unconstrained: any value; 0
			}
			sb.WriteString(smtName(v.Name))
			sb.WriteByte(' ')
			n++
		}
		sb.WriteString("))")
		if n == 0 {
			continue
		}
		s.send(sb.String())
		rep, err := s.readReply()
		if err != nil {
			return nil, err
		}
		if strings.Contains(rep, "(error") {
			return nil, fmt.Errorf("solver %s error in get-value: %s", s.Kind, rep)
		}
		if err := parseValues(rep, res); err != nil {
			return nil, err
		}
	}
	return res, nil
}

// parseValues parses "((|a| #x01) (|b| true) (|c| (_ bv3 5)))".
func parseValues(rep string, out map[string]uint64) error {
	i := 0
	n := len(rep)
	skip := func() {
		for i < n && (rep[i] == ' ' || rep[i] == '\n' || rep[i] == '\t' || rep[i] == '\r') {
			i++
		}
	}
	skip()
	if i >= n || rep[i] != '(' {
		return fmt.Errorf("bad get-value reply: %q", rep)
	}
	i++
	for {
		skip()
		if i >= n {
			return fmt.Errorf("bad get-value reply: %q", rep)
		}
		if rep[i] == ')' {
			return nil
		}
		if rep[i] != '(' {
			return fmt.Errorf("bad get-value reply at %d: %q", i, rep)
		}
		i++
		skip()
		var name string
		if rep[i] == '|' {
			j := strings.IndexByte(rep[i+1:], '|')
			name = rep[i+1 : i+1+j]
			i += j + 2
		} else {
			j := i
			for j < n && rep[j] != ' ' {
				j++
			}
			name = rep[i:j]
			i = j
		}
		skip()
		var val uint64
		switch {
		case strings.HasPrefix(rep[i:], "#x"):
			j := i + 2
			for j < n && rep[j] != ')' && rep[j] != ' ' {
				j++
			}
			v, err := strconv.ParseUint(rep[i+2:j], 16, 64)
			if err != nil {
				return err
			}
			val = v
			i = j
		case strings.HasPrefix(rep[i:], "#b"):
			j := i + 2
			for j < n && rep[j] != ')' && rep[j] != ' ' {
				j++
			}
			v, err := strconv.ParseUint(rep[i+2:j], 2, 64)
			if err != nil {
				return err
			}
			val = v
			i = j
		case strings.HasPrefix(rep[i:], "true"):
			val = 1
			i += 4
		case strings.HasPrefix(rep[i:], "false"):
			val = 0
			i += 5
		case strings.HasPrefix(rep[i:], "(_ bv"):
			j := i + 5
			k := j
			for k < n && rep[k] != ' ' {
				k++
			}
			v, err := strconv.ParseUint(rep[j:k], 10, 64)
			if err != nil {
				return err
			}
			val = v
			for k < n && rep[k] != ')' {
				k++
			}
			i = k + 1
		default:
			return fmt.Errorf("bad value at %d in %q", i, rep)
		}
		out[name] = val
		skip()
		if i >= n || rep[i] != ')' {
			return fmt.Errorf("bad get-value reply (close) at %d: %q", i, rep)
		}
		i++
	}
}
