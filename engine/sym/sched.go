package sym

import (
	"fmt"
	"go/types"
	"strings"

	"golang.org/x/tools/go/ssa"
)

// Cooperative, deterministic run-to-block scheduling.  Each interpreted
// goroutine runs on its own Go goroutine, but only the holder of the baton
// executes.  Schedules are NOT enumerated (DESIGN.md 2.3).

type goroutine struct {
	cond   func() bool // non-nil while blocked: true when the goroutine can proceed
	id     int
	resume chan struct{}
	exited chan struct{}
	done   bool
	kill   bool
	fn     Value
	args   []Value
	why    string // what the goroutine last yielded for (diagnostics)
	at     *frame
}

// blockedSummary names, for a deadlock report, what every live goroutine waits for.
func (w *Worker) blockedSummary() string {
	var sb strings.Builder
	for _, g := range w.gs {
		if g.done {
			continue
		}
		fmt.Fprintf(&sb, " [g%d %s", g.id, g.why)
		n := 0
		for fr := g.at; fr != nil && n < 3; fr = fr.caller {
			if fr.cur != nil {
				fmt.Fprintf(&sb, " <%s@%s", fr.fn.Name(), w.posStr(fr.cur.Pos()))
			} else {
				fmt.Fprintf(&sb, " <%s", fr.fn.Name())
			}
			n++
		}
		sb.WriteString("]")
	}
	return sb.String()
}

type killed struct{}

func (w *Worker) mainG() *goroutine {
	if len(w.gs) == 0 {
		g := &goroutine{id: 0, resume: make(chan struct{}, 1)}
		w.gs = append(w.gs, g)
		w.curG = g
	}
	return w.gs[0]
}

func (w *Worker) spawn(fr *frame, instr ssa.Instruction, fn Value, args []Value) {
	if w.inSetup {
		panic(pathAbort{"engine", "go statement during setup"})
	}
	w.mainG()
	g := &goroutine{id: len(w.gs), resume: make(chan struct{}, 1), exited: make(chan struct{}), fn: fn, args: args}
	w.gs = append(w.gs, g)
	w.progress()
	go func() {
		defer close(g.exited)
		<-g.resume
		if g.kill {
			g.done = true
			return
		}
		defer func() {
			r := recover()
			g.done = true
			if r != nil {
				if _, ok := r.(killed); ok {
					return
				}
				// transfer the panic to the main goroutine
				if w.pending == nil {
					w.pending = r
				}
			}
			w.progress()
			// hand the baton on
			w.handOff(g)
		}()
		w.call(nil, instr.Pos(), g.fn, g.args)
	}()
	w.schedPoint("go")
}

func (w *Worker) progress() { w.idleYields = 0 }

// handOff passes the baton from a finished goroutine to the next live one
// (the main goroutine if nothing else is runnable).
func (w *Worker) handOff(from *goroutine) {
	next := w.pickNext(from)
	if next == nil {
		next = w.gs[0]
	}
	w.curG = next
	next.resume <- struct{}{}
}

func (w *Worker) pickNext(cur *goroutine) *goroutine {
	n := len(w.gs)
	if n == 0 {
		return nil
	}
	start := 0
	if cur != nil {
		start = cur.id + 1
	}
	for k := 0; k < n; k++ {
		g := w.gs[(start+k)%n]
		if g != cur && !g.done {
			return g
		}
	}
	return nil
}

// yield is called by a goroutine that cannot proceed.  It returns when the
// goroutine is scheduled again.
func (w *Worker) yield(why string) {
	cur := w.curG
	if cur == nil {
		cur = w.mainG()
	}
	if w.pending != nil && cur.id == 0 {
		p := w.pending
		w.pending = nil
		panic(p)
	}
	cur.why, cur.at = why, w.curFrame
	live := 0
	for _, g := range w.gs {
		if !g.done {
			live++
		}
	}
	w.idleYields++
	if w.idleYields > live+1 {
		if cur.id == 0 {
			panic(pathAbort{"deadlock", why})
		}
		// let the main goroutine find out
		w.deadlockWhy = why
	}
	next := w.pickNext(cur)
	if next == nil {
		if cur.id == 0 {
			panic(pathAbort{"deadlock", why})
		}
		next = w.gs[0]
	}
	w.curG = next
	next.resume <- struct{}{}
	<-cur.resume
	if cur.kill {
		panic(killed{})
	}
	w.curG = cur
	if w.pending != nil && cur.id == 0 {
		p := w.pending
		w.pending = nil
		panic(p)
	}
}

// drainGoroutines lets spawned goroutines run after the harness returns,
// until all are done or blocked.
func (w *Worker) drainGoroutines() {
	if len(w.gs) <= 1 {
		return
	}
	for {
		live := 0
		for _, g := range w.gs[1:] {
			if !g.done {
				live++
			}
		}
		if live == 0 {
			return
		}
		func() {
			defer func() {
				if r := recover(); r != nil {
					if a, ok := r.(pathAbort); ok && a.Kind == "deadlock" {
						live = -1
						return
					}
					panic(r)
				}
			}()
			w.yield("drain")
		}()
		if live == -1 {
			return
		}
	}
}

func (w *Worker) killGoroutines() {
	if len(w.gs) <= 1 {
		w.gs = nil
		w.curG = nil
		w.pending = nil
		return
	}
	for _, g := range w.gs[1:] {
		if g.exitedClosed() {
			continue
		}
		g.kill = true
		select {
		case g.resume <- struct{}{}:
		default:
		}
		<-g.exited
	}
	w.gs = nil
	w.curG = nil
	w.pending = nil
	w.idleYields = 0
}

func (g *goroutine) exitedClosed() bool {
	select {
	case <-g.exited:
		return true
	default:
		return false
	}
}

// ---------------------------------------------------------------------------
// channels

func (w *Worker) chanSend(fr *frame, instr ssa.Instruction, c *Chan, v Value) {
	w.schedPoint("chan-send")
	if c == nil {
		w.blockForever("send on nil channel at " + fr.site(instr))
	}
	for {
		if c.Closed {
			fr.rtPanic(instr, "send on closed channel")
		}
		if len(c.Q) < c.Cap {
			c.Q = append(c.Q, copyVal(v))
			w.progress()
			return
		}
		// unbuffered: rendezvous is modelled as a one-slot handoff that a
		// receiver must take before the sender proceeds
		if c.Cap == 0 && !c.pendingSend {
			c.pendingSend = true
			c.Q = append(c.Q, copyVal(v))
			w.progress()
			for c.pendingSend {
				w.yield("send on unbuffered channel at " + fr.site(instr))
			}
			return
		}
		w.yield("send on full channel at " + fr.site(instr))
	}
}

func (w *Worker) blockForever(why string) {
	for {
		w.yield(why)
	}
}

func (c *Chan) canRecv() bool { return len(c.Q) > 0 || c.Closed }

func (c *Chan) takeRecv() (Value, bool) {
	if len(c.Q) > 0 {
		v := c.Q[0]
		c.Q = c.Q[1:]
		c.pendingSend = false
		return v, true
	}
	return zero(c.Elem), false
}

func (w *Worker) chanRecv(fr *frame, instr ssa.Instruction, c *Chan, commaOk bool) Value {
	w.schedPoint("chan-recv")
	if c == nil {
		w.blockForever("receive from nil channel at " + fr.site(instr))
	}
	if !c.canRecv() {
		c.recvWait++
		w.progress() // a waiting receiver enables a select-send elsewhere
		for !c.canRecv() {
			w.yield("receive at " + fr.site(instr))
		}
		c.recvWait--
	}
	v, ok := c.takeRecv()
	w.progress()
	if commaOk {
		return Tuple{v, mkBool(ok)}
	}
	return v
}

func (w *Worker) chanClose(fr *frame, c *Chan) {
	w.schedPoint("chan-close")
	if c == nil {
		panic(targetPanic{V: Iface{T: types.Typ[types.String], V: Str{S: "close of nil channel"}}, Msg: "close of nil channel"})
	}
	if c.Closed {
		panic(targetPanic{V: Iface{T: types.Typ[types.String], V: Str{S: "close of closed channel"}}, Msg: "close of closed channel", Site: callerName(fr)})
	}
	c.Closed = true
	w.progress()
}

func (w *Worker) selectOp(fr *frame, instr *ssa.Select) Value {
	w.schedPoint("select")
	firstWait := true
	for {
		chosen := -1
		for i, st := range instr.States {
			c := fr.get(st.Chan).(*Chan)
			if c == nil {
				continue
			}
			if st.Dir == types.RecvOnly {
				if c.canRecv() {
					chosen = i
					break
				}
			} else {
				if c.Closed {
					fr.rtPanic(instr, "send on closed channel")
				}
				// an unbuffered send is ready only when a receiver is waiting (rendezvous)
				if len(c.Q) < c.Cap || (c.Cap == 0 && !c.pendingSend && c.recvWait > 0) {
					chosen = i
					break
				}
			}
		}
		if chosen >= 0 {
			st := instr.States[chosen]
			c := fr.get(st.Chan).(*Chan)
			r := Tuple{mkInt(64, uint64(chosen)), mkBool(false)}
			var recvV Value
			recvOk := false
			if st.Dir == types.RecvOnly {
				recvV, recvOk = c.takeRecv()
			} else {
				c.Q = append(c.Q, copyVal(fr.get(st.Send)))
				if c.Cap == 0 {
					c.pendingSend = true
				}
			}
			w.progress()
			r[1] = mkBool(recvOk)
			for i, s := range instr.States {
				if s.Dir == types.RecvOnly {
					if i == chosen {
						r = append(r, recvV)
					} else {
						r = append(r, zero(s.Chan.Type().Underlying().(*types.Chan).Elem()))
					}
				}
			}
			return r
		}
		if !instr.Blocking {
			r := Tuple{mkInt(64, ^uint64(0)), mkBool(false)}
			for _, s := range instr.States {
				if s.Dir == types.RecvOnly {
					r = append(r, zero(s.Chan.Type().Underlying().(*types.Chan).Elem()))
				}
			}
			return r
		}
		// block: this goroutine now waits to receive on every receive case
		for _, st := range instr.States {
			if c, _ := fr.get(st.Chan).(*Chan); c != nil && st.Dir == types.RecvOnly {
				if c.recvWait == 0 && firstWait {
					// a newly waiting receiver enables a select-send elsewhere (only
					// when it starts to wait: re-registering after a fruitless wake-up is
					// not progress, or a real deadlock would never be recognised)
					w.progress()
				}
				c.recvWait++
			}
		}
		firstWait = false
		w.yield(fmt.Sprintf("select at %s", fr.site(instr)))
		for _, st := range instr.States {
			if c, _ := fr.get(st.Chan).(*Chan); c != nil && st.Dir == types.RecvOnly {
				c.recvWait--
			}
		}
	}
}

// ---------------------------------------------------------------------------
// Schedule exploration (Config.ExploreSchedules): at every synchronisation
// point - lock, unlock, atomic operation, channel operation, goroutine start -
// the scheduler decision "which runnable goroutine goes next" becomes a
// decision of the path explorer, so the interleavings of those points are
// enumerated exhaustively up to MaxPreemptions context switches.  Code between
// two synchronisation points runs atomically (data-race freedom of that code
// is what the lockset monitor checks).

func (w *Worker) runnable(g *goroutine) bool {
	return !g.done && (g.cond == nil || g.cond())
}

func (w *Worker) schedPoint(why string) {
	if !w.E.Cfg.ExploreSchedules || w.inSetup || len(w.gs) <= 1 {
		return
	}
	cur := w.curG
	if cur == nil {
		return
	}
	if w.preemptions >= w.E.Cfg.MaxPreemptions {
		return
	}
	cands := []*goroutine{cur}
	for _, g := range w.gs {
		if g != cur && w.runnable(g) {
			cands = append(cands, g)
		}
	}
	if len(cands) == 1 {
		return
	}
	var k int
	if d, ok := w.nextFixed("sched"); ok {
		k = int(d.Val)
	} else {
		k = w.split(len(cands))
	}
	w.draws = append(w.draws, Draw{Name: "sched", Kind: "range", Val: uint64(k)})
	if k == 0 || k >= len(cands) {
		return
	}
	w.preemptions++
	w.switchTo(cands[k])
}

func (w *Worker) switchTo(next *goroutine) {
	cur := w.curG
	w.curG = next
	next.resume <- struct{}{}
	<-cur.resume
	if cur.kill {
		panic(killed{})
	}
	w.curG = cur
	if w.pending != nil && cur.id == 0 {
		p := w.pending
		w.pending = nil
		panic(p)
	}
}

// block waits until cond holds (other goroutines run meanwhile).
func (w *Worker) block(cond func() bool, why string) {
	cur := w.curG
	if cur == nil {
		cur = w.mainG()
	}
	for !cond() {
		cur.cond = cond
		w.yield(why)
	}
	cur.cond = nil
}

type muState struct {
	writer  *goroutine
	readers int
}

func (w *Worker) muOf(p *Value) *muState {
	m, _ := w.pathState["mutexes"].(map[*Value]*muState)
	if m == nil {
		m = map[*Value]*muState{}
		w.pathState["mutexes"] = m
	}
	if m[p] == nil {
		m[p] = &muState{}
	}
	return m[p]
}

// realLock gives sync.Mutex / sync.RWMutex their blocking semantics when
// schedules are explored.
func (w *Worker) realLock(what string, p *Value) {
	if !w.E.Cfg.ExploreSchedules || w.inSetup {
		return
	}
	w.mainG()
	st := w.muOf(p)
	switch what {
	case "Mutex.Lock", "RWMutex.Lock":
		w.schedPoint(what)
		if st.writer == w.curG {
			panic(pathAbort{"deadlock", "mutex acquired while held by the same goroutine"})
		}
		w.block(func() bool { return st.writer == nil && st.readers == 0 }, what)
		st.writer = w.curG
		if w.E.UsesTryLock {
			// a TryLock elsewhere can observe that the mutex is held: the holder
			// may be preempted inside its critical section
			w.schedPoint("locked")
		}
	case "RWMutex.RLock":
		w.schedPoint(what)
		w.block(func() bool { return st.writer == nil }, what)
		st.readers++
		if w.E.UsesTryLock {
			w.schedPoint("rlocked")
		}
	case "Mutex.Unlock", "RWMutex.Unlock":
		st.writer = nil
		w.progress()
		w.schedPoint(what)
	case "RWMutex.RUnlock":
		st.readers--
		w.progress()
		w.schedPoint(what)
	}
}
