// Package sym is the gosx symbolic executor: terms, solver pipe, values,
// SSA interpreter, path explorer.
package sym

import (
	"fmt"
	"strconv"
	"strings"
)

// Op is a term operator.  Bit-vector sorted unless noted.
type Op uint8

const (
	OpConst Op = iota // K = value, W = width (W==0: Bool constant, K = 0/1)
	OpVar             // Name; W==0: Bool
	OpAdd
	OpSub
	OpMul
	OpUDiv
	OpSDiv
	OpURem
	OpSRem
	OpAnd
	OpOr
	OpXor
	OpNot
	OpNeg
	OpShl
	OpLShr
	OpAShr
	OpConcat
	OpExtract // K = hi<<8 | lo
	OpZExt    // to width W
	OpSExt
	OpIte // args: cond(Bool), a, b ; sort of a
	// Bool sorted:
	OpEq
	OpUlt
	OpUle
	OpSlt
	OpSle
	OpBAnd // n-ary
	OpBOr  // n-ary
	OpBNot
	OpFPIsZero // arg: bv of width 32/64 interpreted as IEEE float; true iff +0 or -0
)

var opNames = [...]string{
	OpAdd: "bvadd", OpSub: "bvsub", OpMul: "bvmul", OpUDiv: "bvudiv", OpSDiv: "bvsdiv",
	OpURem: "bvurem", OpSRem: "bvsrem", OpAnd: "bvand", OpOr: "bvor", OpXor: "bvxor",
	OpNot: "bvnot", OpNeg: "bvneg", OpShl: "bvshl", OpLShr: "bvlshr", OpAShr: "bvashr",
	OpConcat: "concat", OpIte: "ite", OpEq: "=", OpUlt: "bvult", OpUle: "bvule",
	OpSlt: "bvslt", OpSle: "bvsle", OpBAnd: "and", OpBOr: "or", OpBNot: "not",
}

// Term is a hash-consed DAG node.  W == 0 means Bool.
type Term struct {
	Op   Op
	W    int
	K    uint64
	Name string
	Args []*Term
	id   int
}

func (t *Term) IsConst() bool { return t.Op == OpConst }

// TermPool hash-conses terms; one per worker (not thread safe).
type TermPool struct {
	tab   map[string]*Term
	next  int
	Vars  []*Term // in creation order
	True  *Term
	False *Term
}

func NewTermPool() *TermPool {
	p := &TermPool{tab: make(map[string]*Term)}
	p.True = p.mk(&Term{Op: OpConst, W: 0, K: 1})
	p.False = p.mk(&Term{Op: OpConst, W: 0, K: 0})
	return p
}

func (p *TermPool) mk(t *Term) *Term {
	var sb strings.Builder
	sb.WriteByte(byte(t.Op))
	sb.WriteByte(byte(t.W))
	sb.WriteString(strconv.FormatUint(t.K, 36))
	sb.WriteByte('|')
	sb.WriteString(t.Name)
	for _, a := range t.Args {
		sb.WriteByte(',')
		sb.WriteString(strconv.Itoa(a.id))
	}
	k := sb.String()
	if e, ok := p.tab[k]; ok {
		return e
	}
	p.next++
	t.id = p.next
	p.tab[k] = t
	if t.Op == OpVar {
		p.Vars = append(p.Vars, t)
	}
	return t
}

func mask(w int) uint64 {
	if w >= 64 {
		return ^uint64(0)
	}
	return (uint64(1) << uint(w)) - 1
}

func sext64(v uint64, w int) int64 {
	if w >= 64 {
		return int64(v)
	}
	sh := uint(64 - w)
	return int64(v<<sh) >> sh
}

func (p *TermPool) Const(w int, v uint64) *Term {
	if w == 0 {
		if v != 0 {
			return p.True
		}
		return p.False
	}
	return p.mk(&Term{Op: OpConst, W: w, K: v & mask(w)})
}

func (p *TermPool) Bool(b bool) *Term {
	if b {
		return p.True
	}
	return p.False
}

func (p *TermPool) Var(name string, w int) *Term {
	return p.mk(&Term{Op: OpVar, W: w, Name: name})
}

func isPow2(v uint64) (int, bool) {
	if v == 0 || v&(v-1) != 0 {
		return 0, false
	}
	k := 0
	for v > 1 {
		v >>= 1
		k++
	}
	return k, true
}

// Bin builds a binary bit-vector operation with constant folding and the few
// canonical forms of DESIGN.md appendix A (constants last for commutative
// operators, mul/udiv by a power of two become shifts).
func (p *TermPool) Bin(op Op, a, b *Term) *Term {
	w := a.W
	if a.W != b.W {
		panic(fmt.Sprintf("sym: width mismatch %d vs %d in %s", a.W, b.W, opNames[op]))
	}
	if a.IsConst() && b.IsConst() {
		if v, ok := foldBin(op, w, a.K, b.K); ok {
			return p.Const(w, v)
		}
	}
	switch op {
	case OpAdd, OpMul, OpAnd, OpOr, OpXor:
		if a.IsConst() || (!b.IsConst() && a.id > b.id) {
			a, b = b, a
		}
	}
	if b.IsConst() {
		switch op {
		case OpAdd, OpSub, OpOr, OpXor, OpShl, OpLShr, OpAShr:
			if b.K == 0 {
				return a
			}
		case OpMul:
			if b.K == 0 {
				return b
			}
			if b.K == 1 {
				return a
			}
			if k, ok := isPow2(b.K); ok {
				return p.Bin(OpShl, a, p.Const(w, uint64(k)))
			}
		case OpUDiv:
			if b.K == 1 {
				return a
			}
			if k, ok := isPow2(b.K); ok {
				return p.Bin(OpLShr, a, p.Const(w, uint64(k)))
			}
		case OpAnd:
			if b.K == 0 {
				return b
			}
			if b.K == mask(w) {
				return a
			}
		}
	}
	return p.mk(&Term{Op: op, W: w, Args: []*Term{a, b}})
}

func foldBin(op Op, w int, a, b uint64) (uint64, bool) {
	m := mask(w)
	switch op {
	case OpAdd:
		return (a + b) & m, true
	case OpSub:
		return (a - b) & m, true
	case OpMul:
		return (a * b) & m, true
	case OpUDiv:
		if b == 0 {
			return m, true
		}
		return a / b, true
	case OpURem:
		if b == 0 {
			return a, true
		}
		return a % b, true
	case OpSDiv:
		if b == 0 {
			return 0, false
		}
		x, y := sext64(a, w), sext64(b, w)
		if y == -1 {
			return uint64(-x) & m, true
		}
		return uint64(x/y) & m, true
	case OpSRem:
		if b == 0 {
			return 0, false
		}
		x, y := sext64(a, w), sext64(b, w)
		if y == -1 {
			return 0, true
		}
		return uint64(x%y) & m, true
	case OpAnd:
		return a & b, true
	case OpOr:
		return a | b, true
	case OpXor:
		return a ^ b, true
	case OpShl:
		if b >= uint64(w) {
			return 0, true
		}
		return (a << b) & m, true
	case OpLShr:
		if b >= uint64(w) {
			return 0, true
		}
		return a >> b, true
	case OpAShr:
		x := sext64(a, w)
		if b >= uint64(w) {
			b = uint64(w - 1)
		}
		return uint64(x>>b) & m, true
	}
	return 0, false
}

func (p *TermPool) Not(a *Term) *Term {
	if a.IsConst() {
		return p.Const(a.W, ^a.K)
	}
	return p.mk(&Term{Op: OpNot, W: a.W, Args: []*Term{a}})
}

func (p *TermPool) Neg(a *Term) *Term {
	if a.IsConst() {
		return p.Const(a.W, -a.K)
	}
	return p.mk(&Term{Op: OpNeg, W: a.W, Args: []*Term{a}})
}

func (p *TermPool) Extract(a *Term, hi, lo int) *Term {
	if lo == 0 && hi == a.W-1 {
		return a
	}
	if a.IsConst() {
		return p.Const(hi-lo+1, a.K>>uint(lo))
	}
	// extract of zext/concat low part
	if (a.Op == OpZExt || a.Op == OpSExt) && hi < a.Args[0].W {
		return p.Extract(a.Args[0], hi, lo)
	}
	if a.Op == OpZExt && lo >= a.Args[0].W {
		return p.Const(hi-lo+1, 0)
	}
	if a.Op == OpConcat {
		lw := a.Args[1].W
		if hi < lw {
			return p.Extract(a.Args[1], hi, lo)
		}
		if lo >= lw {
			return p.Extract(a.Args[0], hi-lw, lo-lw)
		}
	}
	return p.mk(&Term{Op: OpExtract, W: hi - lo + 1, K: uint64(hi)<<8 | uint64(lo), Args: []*Term{a}})
}

func (p *TermPool) ZExt(a *Term, w int) *Term {
	if w == a.W {
		return a
	}
	if w < a.W {
		return p.Extract(a, w-1, 0)
	}
	if a.IsConst() {
		return p.Const(w, a.K)
	}
	if a.Op == OpZExt {
		return p.ZExt(a.Args[0], w)
	}
	return p.mk(&Term{Op: OpZExt, W: w, Args: []*Term{a}})
}

func (p *TermPool) SExt(a *Term, w int) *Term {
	if w == a.W {
		return a
	}
	if w < a.W {
		return p.Extract(a, w-1, 0)
	}
	if a.IsConst() {
		return p.Const(w, uint64(sext64(a.K, a.W)))
	}
	return p.mk(&Term{Op: OpSExt, W: w, Args: []*Term{a}})
}

func (p *TermPool) Concat(hi, lo *Term) *Term {
	if hi.IsConst() && lo.IsConst() && hi.W+lo.W <= 64 {
		return p.Const(hi.W+lo.W, hi.K<<uint(lo.W)|lo.K)
	}
	return p.mk(&Term{Op: OpConcat, W: hi.W + lo.W, Args: []*Term{hi, lo}})
}

func (p *TermPool) Ite(c, a, b *Term) *Term {
	if c.IsConst() {
		if c.K != 0 {
			return a
		}
		return b
	}
	if a == b {
		return a
	}
	if a.W == 0 {
		// boolean ite
		return p.BOr(p.BAnd(c, a), p.BAnd(p.BNot(c), b))
	}
	return p.mk(&Term{Op: OpIte, W: a.W, Args: []*Term{c, a, b}})
}

// Cmp builds a comparison (OpEq, OpUlt, OpUle, OpSlt, OpSle) over bit-vectors
// (or OpEq over Bools).
func (p *TermPool) Cmp(op Op, a, b *Term) *Term {
	if a.W != b.W {
		panic(fmt.Sprintf("sym: width mismatch %d vs %d in cmp", a.W, b.W))
	}
	if a == b {
		switch op {
		case OpEq, OpUle, OpSle:
			return p.True
		default:
			return p.False
		}
	}
	if a.IsConst() && b.IsConst() {
		var r bool
		switch op {
		case OpEq:
			r = a.K == b.K
		case OpUlt:
			r = a.K < b.K
		case OpUle:
			r = a.K <= b.K
		case OpSlt:
			r = sext64(a.K, a.W) < sext64(b.K, b.W)
		case OpSle:
			r = sext64(a.K, a.W) <= sext64(b.K, b.W)
		}
		return p.Bool(r)
	}
	if op == OpEq {
		if a.W == 0 {
			if a.IsConst() {
				a, b = b, a
			}
			if b.IsConst() {
				if b.K != 0 {
					return a
				}
				return p.BNot(a)
			}
		}
		if a.IsConst() || (!b.IsConst() && a.id > b.id) {
			a, b = b, a
		}
	}
	return p.mk(&Term{Op: op, W: 0, Args: []*Term{a, b}})
}

func (p *TermPool) BNot(a *Term) *Term {
	if a.IsConst() {
		return p.Bool(a.K == 0)
	}
	if a.Op == OpBNot {
		return a.Args[0]
	}
	return p.mk(&Term{Op: OpBNot, W: 0, Args: []*Term{a}})
}

func (p *TermPool) BAnd(ts ...*Term) *Term {
	out := make([]*Term, 0, len(ts))
	for _, t := range ts {
		if t.IsConst() {
			if t.K == 0 {
				return p.False
			}
			continue
		}
		out = append(out, t)
	}
	switch len(out) {
	case 0:
		return p.True
	case 1:
		return out[0]
	}
	return p.mk(&Term{Op: OpBAnd, W: 0, Args: out})
}

func (p *TermPool) BOr(ts ...*Term) *Term {
	out := make([]*Term, 0, len(ts))
	for _, t := range ts {
		if t.IsConst() {
			if t.K != 0 {
				return p.True
			}
			continue
		}
		out = append(out, t)
	}
	switch len(out) {
	case 0:
		return p.False
	case 1:
		return out[0]
	}
	return p.mk(&Term{Op: OpBOr, W: 0, Args: out})
}

func (p *TermPool) FPIsZero(a *Term) *Term {
	if a.IsConst() {
		return p.Bool(a.K&(mask(a.W)>>1) == 0)
	}
	return p.mk(&Term{Op: OpFPIsZero, W: 0, Args: []*Term{a}})
}

// ---------------------------------------------------------------------------
// SMT-LIB2 printing (DAG -> let-free text using per-session define-fun cache is
// avoided on purpose: every assertion is printed self-contained with let
// bindings for shared nodes, so push/pop never invalidates a definition).

func sortOf(w int) string {
	if w == 0 {
		return "Bool"
	}
	return "(_ BitVec " + strconv.Itoa(w) + ")"
}

func smtName(n string) string { return "|" + n + "|" }

// SMT renders t as an SMT-LIB2 expression with let-bindings for nodes used
// more than once.
func SMT(t *Term) string {
	// count uses
	uses := map[*Term]int{}
	var order []*Term
	var visit func(t *Term)
	visit = func(t *Term) {
		uses[t]++
		if uses[t] > 1 {
			return
		}
		for _, a := range t.Args {
			visit(a)
		}
		order = append(order, t) // post-order
	}
	visit(t)
	names := map[*Term]string{}
	var sb strings.Builder
	nlets := 0
	var expr func(t *Term) string
	expr = func(t *Term) string {
		if n, ok := names[t]; ok {
			return n
		}
		switch t.Op {
		case OpConst:
			if t.W == 0 {
				if t.K != 0 {
					return "true"
				}
				return "false"
			}
			if t.W%4 == 0 {
				return fmt.Sprintf("#x%0*x", t.W/4, t.K)
			}
			return fmt.Sprintf("(_ bv%d %d)", t.K, t.W)
		case OpVar:
			return smtName(t.Name)
		case OpExtract:
			return fmt.Sprintf("((_ extract %d %d) %s)", t.K>>8, t.K&0xff, expr(t.Args[0]))
		case OpZExt:
			return fmt.Sprintf("((_ zero_extend %d) %s)", t.W-t.Args[0].W, expr(t.Args[0]))
		case OpSExt:
			return fmt.Sprintf("((_ sign_extend %d) %s)", t.W-t.Args[0].W, expr(t.Args[0]))
		case OpFPIsZero:
			return fmt.Sprintf("(fp.isZero ((_ to_fp %d %d) %s))", map[int]int{32: 8, 64: 11}[t.Args[0].W], map[int]int{32: 24, 64: 53}[t.Args[0].W], expr(t.Args[0]))
		}
		var b strings.Builder
		b.WriteByte('(')
		b.WriteString(opNames[t.Op])
		for _, a := range t.Args {
			b.WriteByte(' ')
			b.WriteString(expr(a))
		}
		b.WriteByte(')')
		return b.String()
	}
	for _, n := range order {
		if n == t {
			break
		}
		if uses[n] > 1 && len(n.Args) > 0 {
			e := expr(n)
			nm := "?l" + strconv.Itoa(n.id)
			sb.WriteString("(let ((" + nm + " " + e + ")) ")
			names[n] = nm
			nlets++
		}
	}
	sb.WriteString(expr(t))
	for i := 0; i < nlets; i++ {
		sb.WriteByte(')')
	}
	return sb.String()
}

// CollectVars appends the variables occurring in t to the set.
func CollectVars(t *Term, seen map[*Term]bool, out *[]*Term) {
	if seen[t] {
		return
	}
	seen[t] = true
	if t.Op == OpVar {
		*out = append(*out, t)
	}
	for _, a := range t.Args {
		CollectVars(a, seen, out)
	}
}

// Eval evaluates t under an assignment of variables (missing variables are 0).
func Eval(t *Term, env map[string]uint64, memo map[*Term]uint64) uint64 {
	if v, ok := memo[t]; ok {
		return v
	}
	var r uint64
	a := func(i int) uint64 { return Eval(t.Args[i], env, memo) }
	b2u := func(b bool) uint64 {
		if b {
			return 1
		}
		return 0
	}
	switch t.Op {
	case OpConst:
		r = t.K
	case OpVar:
		r = env[t.Name] & mask(maxInt(t.W, 1))
	case OpNot:
		r = ^a(0) & mask(t.W)
	case OpNeg:
		r = -a(0) & mask(t.W)
	case OpConcat:
		r = a(0)<<uint(t.Args[1].W) | a(1)
	case OpExtract:
		hi, lo := int(t.K>>8), int(t.K&0xff)
		r = (a(0) >> uint(lo)) & mask(hi-lo+1)
	case OpZExt:
		r = a(0)
	case OpSExt:
		r = uint64(sext64(a(0), t.Args[0].W)) & mask(t.W)
	case OpIte:
		if a(0) != 0 {
			r = a(1)
		} else {
			r = a(2)
		}
	case OpEq:
		r = b2u(a(0) == a(1))
	case OpUlt:
		r = b2u(a(0) < a(1))
	case OpUle:
		r = b2u(a(0) <= a(1))
	case OpSlt:
		r = b2u(sext64(a(0), t.Args[0].W) < sext64(a(1), t.Args[0].W))
	case OpSle:
		r = b2u(sext64(a(0), t.Args[0].W) <= sext64(a(1), t.Args[0].W))
	case OpBAnd:
		r = 1
		for i := range t.Args {
			if a(i) == 0 {
				r = 0
				break
			}
		}
	case OpBOr:
		r = 0
		for i := range t.Args {
			if a(i) != 0 {
				r = 1
				break
			}
		}
	case OpBNot:
		r = b2u(a(0) == 0)
	case OpFPIsZero:
		r = b2u(a(0)&(mask(t.Args[0].W)>>1) == 0)
	case OpSDiv, OpSRem:
		x, y := a(0), a(1)
		if y == 0 {
			if t.Op == OpSRem {
				r = x
			} else if sext64(x, t.W) < 0 {
				r = 1
			} else {
				r = mask(t.W)
			}
		} else {
			r, _ = foldBin(t.Op, t.W, x, y)
		}
	default:
		r, _ = foldBin(t.Op, t.W, a(0), a(1))
	}
	memo[t] = r
	return r
}

func maxInt(a, b int) int {
	if a > b {
		return a
	}
	return b
}
