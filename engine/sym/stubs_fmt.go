package sym

import (
	"fmt"
	"go/types"
	"math"
	"net"
)

// fmt model.  Formatting is reflection plus digit loops over the operands: the
// classic fork bomb of symbolic execution and never the subject of a property
// except C20, which excludes rendering.  The stub renders CONCRETE operands with
// the host's fmt (ints, strings, bools, floats, byte slices, values with a
// String/Error method) and puts "?" where an operand is symbolic or of a kind
// it does not convert.  Error TEXT is never asserted by any harness.

func (w *Worker) nativeArg(fr *frame, v Value) interface{} {
	it, ok := v.(Iface)
	if !ok {
		return "?"
	}
	if it.T == nil {
		return nil
	}
	// Stringer / error
	for _, m := range []string{"Error", "String"} {
		if sel := w.E.Prog.MethodSets.MethodSet(it.T).Lookup(nil, m); sel != nil {
			sig, _ := sel.Type().(*types.Signature)
			if sig != nil && sig.Params().Len() == 0 && sig.Results().Len() == 1 {
				if named, ok := it.T.(*types.Named); ok && named.Obj().Pkg() != nil && named.Obj().Pkg().Path() == "time" {
					return "<time>"
				}
				if sl, isSl := it.V.(Slice); isSl && isConcrete(sl) && types.TypeString(it.T, nil) == "net.IP" {
					return net.IP(concBytes(sl)).String()
				}
				if sl, isSl := it.V.(Slice); isSl && isConcrete(sl) && types.TypeString(it.T, nil) == "net.HardwareAddr" {
					return net.HardwareAddr(concBytes(sl)).String()
				}
				if f := w.E.Prog.LookupMethod(it.T, nil, m); f != nil && f.Blocks != nil {
					func() {
						defer func() {
							if r := recover(); r != nil {
								if _, isAbort := r.(pathAbort); isAbort {
									v = nil
									return
								}
								panic(r)
							}
						}()
						r := w.call(fr, fr.callpos, f, []Value{it.V})
						if s, ok := r.(Str); ok && s.IsConc() {
							v = s
						} else {
							v = nil
						}
					}()
					if s, ok := v.(Str); ok {
						return s.S
					}
					return "?"
				}
			}
		}
	}
	switch x := it.V.(type) {
	case Int:
		if x.T != nil {
			return "?"
		}
		if b, ok := it.T.Underlying().(*types.Basic); ok {
			wd, signed, isFloat := widthOf(b)
			if isFloat {
				if wd == 32 {
					return math.Float32frombits(uint32(x.C))
				}
				return math.Float64frombits(x.C)
			}
			if signed {
				return sext64(x.C, wd)
			}
		}
		return x.C
	case Bool:
		if x.T != nil {
			return "?"
		}
		return x.C
	case Str:
		if !x.IsConc() {
			return "?"
		}
		return x.S
	case Slice:
		if isConcrete(x) {
			all8 := true
			for _, e := range x {
				if i, ok := e.(Int); !ok || i.W != 8 {
					all8 = false
				}
			}
			if all8 {
				return concBytes(x)
			}
		}
		return "?"
	case *Value:
		if x == nil {
			return nil
		}
		return "<ptr>"
	}
	return "?"
}

func (w *Worker) fmtArgs(fr *frame, v Value) []interface{} {
	sl := w.asSlice(v)
	out := make([]interface{}, len(sl))
	for i := range sl {
		out[i] = w.nativeArg(fr, sl[i])
	}
	return out
}

func (w *Worker) writeTo(fr *frame, wr Value, s string) {
	it := wr.(Iface)
	if it.T == nil {
		return
	}
	f := w.E.Prog.LookupMethod(it.T, nil, "Write")
	w.call(fr, fr.callpos, f, []Value{it.V, bytesVal([]byte(s))})
}

func init() {
	note := "fmt.Sprint*/Fprint* (concrete operands rendered by the host fmt, symbolic operands as '?'; rendering is never asserted except for ordering tokens in C20)"
	intrinsics["fmt.Sprintf"] = func(w *Worker, fr *frame, a []Value) (Value, bool) {
		w.stub(note)
		f := a[0].(Str)
		if !f.IsConc() {
			return Str{S: "?"}, true
		}
		return Str{S: fmt.Sprintf(f.S, w.fmtArgs(fr, a[1])...)}, true
	}
	intrinsics["fmt.Sprint"] = func(w *Worker, fr *frame, a []Value) (Value, bool) {
		w.stub(note)
		return Str{S: fmt.Sprint(w.fmtArgs(fr, a[0])...)}, true
	}
	intrinsics["fmt.Sprintln"] = func(w *Worker, fr *frame, a []Value) (Value, bool) {
		w.stub(note)
		return Str{S: fmt.Sprintln(w.fmtArgs(fr, a[0])...)}, true
	}
	intrinsics["fmt.Fprintf"] = func(w *Worker, fr *frame, a []Value) (Value, bool) {
		w.stub(note)
		f := a[1].(Str)
		s := "?"
		if f.IsConc() {
			s = fmt.Sprintf(f.S, w.fmtArgs(fr, a[2])...)
		}
		w.writeTo(fr, a[0], s)
		return Tuple{vI(len(s)), Iface{}}, true
	}
	intrinsics["fmt.Fprint"] = func(w *Worker, fr *frame, a []Value) (Value, bool) {
		w.stub(note)
		s := fmt.Sprint(w.fmtArgs(fr, a[1])...)
		w.writeTo(fr, a[0], s)
		return Tuple{vI(len(s)), Iface{}}, true
	}
	intrinsics["fmt.Fprintln"] = func(w *Worker, fr *frame, a []Value) (Value, bool) {
		w.stub(note)
		s := fmt.Sprintln(w.fmtArgs(fr, a[1])...)
		w.writeTo(fr, a[0], s)
		return Tuple{vI(len(s)), Iface{}}, true
	}
}
