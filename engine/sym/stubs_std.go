package sym

import (
	"go/types"
	"strings"

	"golang.org/x/tools/go/ssa"
)

// Models of a few standard-library facilities that are implemented with
// unsafe/reflect (so their SSA cannot be interpreted) and that changed code
// may plausibly start to use: sort.Slice, errors.As, sync.Map, sync.Pool,
// atomic.Value, timers that never fire.

func init() {
	sortSlice := func(w *Worker, fr *frame, a []Value) (Value, bool) {
		it := a[0].(Iface)
		if it.T == nil {
			return nil, true
		}
		s := w.asSlice(it.V)
		less := a[1]
		// insertion sort (stable) driven by the program's own less(i, j)
		for i := 1; i < len(s); i++ {
			for j := i; j > 0; j-- {
				r := w.call(fr, fr.callpos, less, []Value{vI(j), vI(j - 1)}).(Bool)
				if !w.decideBool(r, "sort.Slice-less") {
					break
				}
				tmp := copyVal(s[j])
				store(&s[j], s[j-1])
				store(&s[j-1], tmp)
			}
		}
		w.stub("sort.Slice / sort.SliceStable (insertion sort calling the program's less function)")
		return nil, true
	}
	intrinsics["sort.Slice"] = sortSlice
	intrinsics["sort.SliceStable"] = sortSlice

	intrinsics["errors.As"] = func(w *Worker, fr *frame, a []Value) (Value, bool) {
		err := a[0].(Iface)
		target := a[1].(Iface)
		pt, ok := target.T.(*types.Pointer)
		if !ok || target.V.(*Value) == nil {
			panic(targetPanic{V: Iface{T: types.Typ[types.String], V: Str{S: "errors: target must be a non-nil pointer"}}, Msg: "errors: target must be a non-nil pointer"})
		}
		want := pt.Elem()
		for depth := 0; depth < 32 && err.T != nil; depth++ {
			match := false
			if iface, isIface := want.Underlying().(*types.Interface); isIface {
				match = w.implements(err.T, iface)
			} else {
				match = w.identical(err.T, want)
			}
			if match {
				if _, isIface := want.Underlying().(*types.Interface); isIface {
					store(target.V.(*Value), err)
				} else {
					store(target.V.(*Value), err.V)
				}
				return mkBool(true), true
			}
			if w.E.Prog.MethodSets.MethodSet(err.T).Lookup(nil, "Unwrap") == nil {
				break
			}
			f := w.E.Prog.LookupMethod(err.T, nil, "Unwrap")
			if f == nil || f.Signature.Results().Len() != 1 {
				break
			}
			r, isErr := w.call(fr, fr.callpos, f, []Value{err.V}).(Iface)
			if !isErr {
				break
			}
			err = r
		}
		w.stub("errors.As (chain walk by dynamic type)")
		return mkBool(false), true
	}

	// sync.Map as an insertion-ordered table keyed by the canonical form of the key
	smap := func(w *Worker, p *Value) *Map {
		ms, _ := w.pathState["syncmaps"].(map[*Value]*Map)
		if ms == nil {
			ms = map[*Value]*Map{}
			w.pathState["syncmaps"] = ms
		}
		if ms[p] == nil {
			ms[p] = newMap(types.NewMap(types.NewInterfaceType(nil, nil), types.NewInterfaceType(nil, nil)))
		}
		w.stub("sync.Map (plain table; operations are atomic steps)")
		return ms[p]
	}
	intrinsics["(*sync.Map).Load"] = func(w *Worker, fr *frame, a []Value) (Value, bool) {
		w.schedPoint("sync.Map")
		if e := w.mapFind(smap(w, a[0].(*Value)), a[1]); e != nil {
			return Tuple{e.val, mkBool(true)}, true
		}
		return Tuple{Iface{}, mkBool(false)}, true
	}
	intrinsics["(*sync.Map).Store"] = func(w *Worker, fr *frame, a []Value) (Value, bool) {
		w.schedPoint("sync.Map")
		w.mapInsert(smap(w, a[0].(*Value)), a[1], a[2])
		return nil, true
	}
	intrinsics["(*sync.Map).Delete"] = func(w *Worker, fr *frame, a []Value) (Value, bool) {
		w.schedPoint("sync.Map")
		w.mapDelete(smap(w, a[0].(*Value)), a[1])
		return nil, true
	}
	intrinsics["(*sync.Map).LoadOrStore"] = func(w *Worker, fr *frame, a []Value) (Value, bool) {
		w.schedPoint("sync.Map")
		m := smap(w, a[0].(*Value))
		if e := w.mapFind(m, a[1]); e != nil {
			return Tuple{e.val, mkBool(true)}, true
		}
		w.mapInsert(m, a[1], a[2])
		return Tuple{a[2], mkBool(false)}, true
	}
	intrinsics["(*sync.Map).LoadAndDelete"] = func(w *Worker, fr *frame, a []Value) (Value, bool) {
		w.schedPoint("sync.Map")
		m := smap(w, a[0].(*Value))
		if e := w.mapFind(m, a[1]); e != nil {
			v := e.val
			w.mapDelete(m, a[1])
			return Tuple{v, mkBool(true)}, true
		}
		return Tuple{Iface{}, mkBool(false)}, true
	}
	intrinsics["(*sync.Map).Range"] = func(w *Worker, fr *frame, a []Value) (Value, bool) {
		m := smap(w, a[0].(*Value))
		for _, e := range append([]*mapEntry(nil), m.entries...) {
			if e.deleted {
				continue
			}
			r := w.call(fr, fr.callpos, a[1], []Value{e.key, e.val}).(Bool)
			if !w.decideBool(r, "sync.Map.Range") {
				break
			}
		}
		return nil, true
	}

	// sync.Pool: Get builds a fresh object, Put drops it
	intrinsics["(*sync.Pool).Get"] = func(w *Worker, fr *frame, a []Value) (Value, bool) {
		w.stub("sync.Pool (Get always calls New; Put drops)")
		p := a[0].(*Value)
		st := (*p).(Struct)
		pt := mustDeref(fr.fn.Signature.Recv().Type()).Underlying().(*types.Struct)
		for i := 0; i < pt.NumFields(); i++ {
			if pt.Field(i).Name() == "New" {
				if isNilFunc(st[i]) {
					return Iface{}, true
				}
				return w.call(fr, fr.callpos, st[i], nil), true
			}
		}
		return Iface{}, true
	}
	intrinsics["(*sync.Pool).Put"] = func(w *Worker, fr *frame, a []Value) (Value, bool) { return nil, true }

	// atomic.Value as a cell holding an interface
	aval := func(w *Worker, p *Value) *Value {
		ms, _ := w.pathState["atomicvalues"].(map[*Value]*Value)
		if ms == nil {
			ms = map[*Value]*Value{}
			w.pathState["atomicvalues"] = ms
		}
		if ms[p] == nil {
			var c Value = Iface{}
			ms[p] = &c
		}
		return ms[p]
	}
	intrinsics["(*sync/atomic.Value).Load"] = func(w *Worker, fr *frame, a []Value) (Value, bool) {
		w.schedPoint("atomic")
		w.noteAtomic(a[0].(*Value), false)
		return *aval(w, a[0].(*Value)), true
	}
	intrinsics["(*sync/atomic.Value).Store"] = func(w *Worker, fr *frame, a []Value) (Value, bool) {
		w.schedPoint("atomic")
		w.noteAtomic(a[0].(*Value), true)
		*aval(w, a[0].(*Value)) = a[1]
		return nil, true
	}
	intrinsics["(*sync/atomic.Value).Swap"] = func(w *Worker, fr *frame, a []Value) (Value, bool) {
		w.schedPoint("atomic")
		w.noteAtomic(a[0].(*Value), true)
		c := aval(w, a[0].(*Value))
		old := *c
		*c = a[1]
		return old, true
	}

	// timers: the passage of real time is outside the encoding - they never fire
	neverChan := func(w *Worker, elem types.Type) *Chan {
		w.chanSeq++
		return &Chan{Cap: 1, ID: w.chanSeq, Elem: elem}
	}
	intrinsics["time.After"] = func(w *Worker, fr *frame, a []Value) (Value, bool) {
		w.stub("time.After (a channel that never delivers: real time does not pass)")
		return neverChan(w, fr.fn.Signature.Results().At(0).Type().Underlying().(*types.Chan).Elem()), true
	}
	newTimer := func(w *Worker, fr *frame, a []Value) (Value, bool) {
		w.stub("time.NewTimer / time.AfterFunc (a timer that never fires)")
		res := fr.fn.Signature.Results().At(0).Type()
		st := mustDeref(res).Underlying().(*types.Struct)
		cell := zero(mustDeref(res))
		for i := 0; i < st.NumFields(); i++ {
			if st.Field(i).Name() == "C" {
				cell.(Struct)[i] = neverChan(w, st.Field(i).Type().Underlying().(*types.Chan).Elem())
			}
		}
		return &cell, true
	}
	intrinsics["time.NewTimer"] = newTimer
	intrinsics["time.AfterFunc"] = newTimer
	intrinsics["(*time.Timer).Stop"] = func(w *Worker, fr *frame, a []Value) (Value, bool) { return mkBool(true), true }
	intrinsics["(*time.Timer).Reset"] = func(w *Worker, fr *frame, a []Value) (Value, bool) { return mkBool(true), true }
	_ = strings.Contains
}

func isNilFunc(v Value) bool {
	switch f := v.(type) {
	case nil:
		return true
	case *Closure:
		return f == nil
	case *ssa.Function:
		return f == nil
	}
	return false
}
