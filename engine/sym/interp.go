package sym

import (
	"fmt"
	"go/constant"
	"go/token"
	"go/types"
	"math"
	"strings"

	"golang.org/x/tools/go/ssa"
)

// NativeFn is an engine-provided callable (used for stubbed method sets).
type NativeFn func(w *Worker, args []Value) Value

// fnInfo numbers the SSA values of a function so that a frame's environment
// is a slice instead of a map.
type fnInfo struct {
	idx map[ssa.Value]int
	n   int
}

func (w *Worker) infoFor(fn *ssa.Function) *fnInfo {
	if fi, ok := w.fnInfos[fn]; ok {
		return fi
	}
	fi := &fnInfo{idx: map[ssa.Value]int{}}
	add := func(v ssa.Value) {
		if _, ok := fi.idx[v]; !ok {
			fi.idx[v] = fi.n
			fi.n++
		}
	}
	for _, p := range fn.Params {
		add(p)
	}
	for _, fv := range fn.FreeVars {
		add(fv)
	}
	for _, l := range fn.Locals {
		add(l)
	}
	for _, b := range fn.Blocks {
		for _, in := range b.Instrs {
			if v, ok := in.(ssa.Value); ok {
				add(v)
			}
		}
	}
	w.fnInfos[fn] = fi
	return fi
}

func (fr *frame) set(key ssa.Value, v Value) { fr.env[fr.info.idx[key]] = v }

// targetPanic is a panic of the interpreted program.
type targetPanic struct {
	V    Value
	Site string
	Msg  string
}

// pathAbort ends the current path (never recoverable by the target).
type pathAbort struct {
	Kind string // "infeasible", "assume", "inconclusive", "budget", "deadlock", "done", "engine"
	Msg  string
}

type deferred struct {
	fn   Value
	args []Value
	pos  token.Pos
	tail *deferred
}

type frame struct {
	w         *Worker
	caller    *frame
	fn        *ssa.Function
	block     *ssa.BasicBlock
	prevBlock *ssa.BasicBlock
	env       []Value
	info      *fnInfo
	locals    []Value
	defers    *deferred
	result    Value
	panicking bool
	panic     interface{}
	callpos   token.Pos
	g         *goroutine
	cur       ssa.Instruction
}

func (w *Worker) posStr(p token.Pos) string {
	if p == token.NoPos {
		return "?"
	}
	ps := w.E.Prog.Fset.Position(p)
	f := ps.Filename
	if i := strings.Index(f, "/repo/"); i >= 0 {
		f = f[i+6:]
	} else if i := strings.LastIndex(f, "/src/"); i >= 0 {
		f = f[i+5:]
	}
	return fmt.Sprintf("%s:%d", f, ps.Line)
}

func (fr *frame) site(instr ssa.Instruction) string {
	p := instr.Pos()
	if p == token.NoPos {
		// fall back to enclosing function
		return fr.fn.String()
	}
	return fr.fn.String() + "@" + fr.w.posStr(p)
}

func (fr *frame) rtPanic(instr ssa.Instruction, msg string) {
	panic(targetPanic{V: Iface{T: types.Typ[types.String], V: Str{S: "runtime error: " + msg}}, Site: fr.site(instr), Msg: "runtime error: " + msg})
}

func (fr *frame) get(key ssa.Value) Value {
	switch key := key.(type) {
	case nil:
		return nil
	case *ssa.Function:
		return key
	case *ssa.Builtin:
		return key
	case *ssa.Const:
		return fr.w.constValue(key)
	case *ssa.Global:
		return fr.w.globalAddr(key)
	}
	if i, ok := fr.info.idx[key]; ok {
		return fr.env[i]
	}
	panic(pathAbort{"engine", fmt.Sprintf("get: no value for %T %v in %v", key, key.Name(), fr.fn)})
}

func (w *Worker) constValue(c *ssa.Const) Value {
	if v, ok := w.consts[c]; ok {
		return v
	}
	v := w.constValue1(c)
	w.consts[c] = v
	return v
}

func (w *Worker) constValue1(c *ssa.Const) Value {
	if c.Value == nil {
		return zero(c.Type())
	}
	t := c.Type()
	if _, ok := t.Underlying().(*types.TypeParam); ok {
		panic(pathAbort{"engine", "const of type param"})
	}
	if b, ok := t.Underlying().(*types.Basic); ok {
		switch {
		case b.Info()&types.IsBoolean != 0:
			return mkBool(constant.BoolVal(c.Value))
		case b.Info()&types.IsString != 0:
			if c.Value.Kind() == constant.String {
				return Str{S: constant.StringVal(c.Value)}
			}
			return Str{S: string(rune(c.Int64()))}
		case b.Info()&types.IsInteger != 0:
			wd, signed, _ := widthOf(b)
			if signed {
				return mkInt(wd, uint64(c.Int64()))
			}
			return mkInt(wd, c.Uint64())
		case b.Info()&types.IsFloat != 0:
			wd, _, _ := widthOf(b)
			f := c.Float64()
			if wd == 32 {
				return mkInt(32, uint64(math.Float32bits(float32(f))))
			}
			return mkInt(64, math.Float64bits(f))
		case b.Kind() == types.UnsafePointer:
			return UnsafePtr{}
		}
	}
	panic(pathAbort{"engine", fmt.Sprintf("constValue: unsupported %v : %v", c, t)})
}

func (w *Worker) globalAddr(g *ssa.Global) *Value {
	if a, ok := w.globals[g]; ok {
		return a
	}
	// lazily create zero storage
	if g.Pkg != nil && !w.initedPkgs[g.Pkg] && !w.E.presetGlobal(w, g) {
		if !w.E.tolerantGlobal(g) {
			panic(pathAbort{"engine", fmt.Sprintf("access to global %s of package %s whose init was not run\n%s", g.Name(), g.Pkg.Pkg.Path(), w.StackTrace())})
		}
	}
	if a, ok := w.globals[g]; ok {
		return a
	}
	cell := zero(mustDeref(g.Type()))
	a := &cell
	w.globals[g] = a
	if !w.inSetup && w.frozen != nil {
		// storage created lazily during a path outlives it: a write to it must
		// trigger the world rebuild like a write to any other setup state
		w.frozen[a] = true
	}
	return a
}

func mustDeref(t types.Type) types.Type {
	if p, ok := t.Underlying().(*types.Pointer); ok {
		return p.Elem()
	}
	panic(fmt.Sprintf("mustDeref: not a pointer: %v", t))
}

// ---------------------------------------------------------------------------

func (fr *frame) runDefer(d *deferred) {
	var ok bool
	defer func() {
		if !ok {
			r := recover()
			if _, isAbort := r.(pathAbort); isAbort {
				panic(r)
			}
			if _, isTP := r.(targetPanic); !isTP {
				panic(r) // engine bug: propagate
			}
			fr.panicking = true
			fr.panic = r
		}
	}()
	fr.w.call(fr, d.pos, d.fn, d.args)
	ok = true
}

func (fr *frame) runDefers() {
	for d := fr.defers; d != nil; d = d.tail {
		fr.runDefer(d)
	}
	fr.defers = nil
	if fr.panicking {
		panic(fr.panic)
	}
}

func (w *Worker) prepareCall(fr *frame, call *ssa.CallCommon, instr ssa.Instruction) (fn Value, args []Value) {
	v := fr.get(call.Value)
	if call.Method == nil {
		fn = v
	} else {
		recv := v.(Iface)
		if recv.T == nil {
			fr.rtPanic(instr, "invalid memory address or nil pointer dereference (method "+call.Method.Name()+" invoked on nil interface)")
		}
		var f *ssa.Function
		if w.E.Prog.MethodSets.MethodSet(recv.T).Lookup(call.Method.Pkg(), call.Method.Name()) != nil {
			f = w.E.Prog.LookupMethod(recv.T, call.Method.Pkg(), call.Method.Name())
		}
		if f == nil {
			if call.Method.Name() == "Interface" && w.isProtoStub(recv) {
				// stubbed protoreflect.Message: Interface() gives the generated struct back
				fn = NativeFn(func(w *Worker, args []Value) Value { return args[0].(Iface) })
				args = append(args, recv)
				for _, arg := range call.Args {
					args = append(args, fr.get(arg))
				}
				return
			}
			panic(pathAbort{"engine", fmt.Sprintf("method set for dynamic type %v does not contain %s", recv.T, call.Method)})
		}
		fn = f
		args = append(args, recv.V)
	}
	for _, arg := range call.Args {
		args = append(args, fr.get(arg))
	}
	return
}

func (w *Worker) call(caller *frame, pos token.Pos, fn Value, args []Value) Value {
	switch fn := fn.(type) {
	case *ssa.Function:
		if fn == nil {
			panic(targetPanic{V: Iface{T: types.Typ[types.String], V: Str{S: "call of nil function"}}, Site: w.posStr(pos), Msg: "call of nil function"})
		}
		return w.callSSA(caller, pos, fn, args, nil)
	case *Closure:
		return w.callSSA(caller, pos, fn.Fn, args, fn.Env)
	case *ssa.Builtin:
		return w.callBuiltin(caller, pos, fn, args)
	case NativeFn:
		return fn(w, args)
	}
	panic(pathAbort{"engine", fmt.Sprintf("cannot call %T", fn)})
}

func (w *Worker) callSSA(caller *frame, pos token.Pos, fn *ssa.Function, args []Value, env []Value) Value {
	fr := &frame{w: w, caller: caller, fn: fn, callpos: pos}
	if caller != nil {
		fr.g = caller.g
	} else {
		fr.g = w.curG
	}
	if fn.Parent() == nil {
		if fn.Synthetic == "package initializer" && fn.Pkg != nil {
			if !w.E.InitAllowed(fn.Pkg) {
				return nil
			}
			w.initedPkgs[fn.Pkg] = true
		}
		if in := w.intrinsicFor(fn); in != nil {
			if res, handled := in(w, fr, args); handled {
				return res
			}
		}
		if fn.Blocks == nil {
			panic(pathAbort{"engine", "no code for function: " + fn.String() + " (called from " + callerName(caller) + ")"})
		}
	}
	if fn.TypeParams().Len() > 0 && len(fn.TypeArgs()) == 0 {
		panic(pathAbort{"engine", "uninstantiated generic " + fn.String()})
	}
	w.depth++
	if w.depth > 400 {
		panic(pathAbort{"budget", "call depth exceeded in " + fn.String()})
	}
	defer func() { w.depth-- }()
	w.noteFunc(fn)
	fr.info = w.infoFor(fn)
	fr.env = make([]Value, fr.info.n)
	fr.block = fn.Blocks[0]
	fr.locals = make([]Value, len(fn.Locals))
	for i, l := range fn.Locals {
		fr.locals[i] = zero(mustDeref(l.Type()))
		fr.set(l, &fr.locals[i])
	}
	for i, p := range fn.Params {
		fr.set(p, args[i])
	}
	for i, fv := range fn.FreeVars {
		fr.set(fv, env[i])
	}
	for fr.block != nil {
		w.runFrame(fr)
	}
	w.curFrame = caller
	return fr.result
}

// StackTrace renders the interpreted call stack (for engine diagnostics).
func (w *Worker) StackTrace() string {
	var sb strings.Builder
	n := 0
	for fr := w.curFrame; fr != nil && n < 40; fr = fr.caller {
		pos := "?"
		if fr.cur != nil {
			pos = w.posStr(fr.cur.Pos())
			fmt.Fprintf(&sb, "    %s @%s  [%v]\n", fr.fn.String(), pos, fr.cur)
		} else {
			fmt.Fprintf(&sb, "    %s\n", fr.fn.String())
		}
		n++
	}
	return sb.String()
}

func callerName(fr *frame) string {
	if fr == nil {
		return "<root>"
	}
	return fr.fn.String()
}

func (w *Worker) runFrame(fr *frame) {
	defer func() {
		if fr.block == nil {
			return // normal return
		}
		r := recover()
		if _, ok := r.(targetPanic); !ok {
			panic(r) // pathAbort or engine bug: not catchable by the target
		}
		fr.panicking = true
		fr.panic = r
		fr.runDefers()
		fr.block = fr.fn.Recover
		if fr.block == nil {
			// recovered, function without named results: return zero
			fr.result = zeroResult(fr.fn)
		}
	}()
	for {
		instrs := fr.block.Instrs
		// phis
		n := 0
		for n < len(instrs) {
			if _, ok := instrs[n].(*ssa.Phi); !ok {
				break
			}
			n++
		}
		if n > 0 {
			predIndex := -1
			for i, p := range fr.block.Preds {
				if p == fr.prevBlock {
					predIndex = i
					break
				}
			}
			tmp := make([]Value, n)
			for i := 0; i < n; i++ {
				tmp[i] = fr.get(instrs[i].(*ssa.Phi).Edges[predIndex])
			}
			for i := 0; i < n; i++ {
				fr.set(instrs[i].(*ssa.Phi), tmp[i])
			}
		}
		jumped := false
		for _, instr := range instrs[n:] {
			switch w.visitInstr(fr, instr) {
			case kReturn:
				return
			case kJump:
				jumped = true
			}
			if jumped {
				break
			}
		}
		if !jumped {
			panic(pathAbort{"engine", "block fell through in " + fr.fn.String()})
		}
	}
}

func zeroResult(fn *ssa.Function) Value {
	res := fn.Signature.Results()
	switch res.Len() {
	case 0:
		return nil
	case 1:
		return zero(res.At(0).Type())
	}
	return zero(res)
}

type continuation int

const (
	kNext continuation = iota
	kReturn
	kJump
)

func (w *Worker) tick(fr *frame, instr ssa.Instruction) {
	w.steps++
	if w.steps > w.E.Cfg.InstrBudget {
		panic(pathAbort{"budget", "instruction budget exceeded at " + fr.site(instr)})
	}
}

func (w *Worker) visitInstr(fr *frame, instr ssa.Instruction) continuation {
	w.tick(fr, instr)
	fr.cur = instr
	w.curFrame = fr
	switch instr := instr.(type) {
	case *ssa.DebugRef:

	case *ssa.UnOp:
		fr.set(instr, w.unop(fr, instr, fr.get(instr.X)))

	case *ssa.BinOp:
		fr.set(instr, w.binop(fr, instr, instr.Op, instr.X.Type(), fr.get(instr.X), fr.get(instr.Y)))

	case *ssa.Call:
		fn, args := w.prepareCall(fr, &instr.Call, instr)
		fr.set(instr, w.call(fr, instr.Pos(), fn, args))

	case *ssa.ChangeInterface:
		fr.set(instr, fr.get(instr.X))

	case *ssa.ChangeType:
		fr.set(instr, fr.get(instr.X))

	case *ssa.Convert:
		fr.set(instr, w.conv(fr, instr, instr.Type(), instr.X.Type(), fr.get(instr.X)))

	case *ssa.SliceToArrayPointer:
		x := w.asSlice(fr.get(instr.X))
		n := int(mustDeref(instr.Type()).Underlying().(*types.Array).Len())
		if len(x) < n {
			fr.rtPanic(instr, fmt.Sprintf("cannot convert slice with length %d to array or pointer to array with length %d", len(x), n))
		}
		if x == nil {
			fr.set(instr, (*Value)(nil))
		} else {
			// aliasing view: an Array sharing the slice cells
			var cell Value = Array(x[:n:n])
			fr.set(instr, &cell)
		}

	case *ssa.MakeInterface:
		fr.set(instr, Iface{T: instr.X.Type(), V: fr.get(instr.X)})

	case *ssa.Extract:
		fr.set(instr, fr.get(instr.Tuple).(Tuple)[instr.Index])

	case *ssa.Slice:
		fr.set(instr, w.sliceOp(fr, instr))

	case *ssa.Return:
		switch len(instr.Results) {
		case 0:
		case 1:
			fr.result = fr.get(instr.Results[0])
		default:
			res := make(Tuple, len(instr.Results))
			for i, r := range instr.Results {
				res[i] = fr.get(r)
			}
			fr.result = res
		}
		fr.block = nil
		return kReturn

	case *ssa.RunDefers:
		fr.runDefers()

	case *ssa.Panic:
		v := fr.get(instr.X)
		panic(targetPanic{V: v, Site: fr.site(instr), Msg: panicMsg(v)})

	case *ssa.Send:
		w.chanSend(fr, instr, fr.get(instr.Chan).(*Chan), fr.get(instr.X))

	case *ssa.Store:
		addr := fr.get(instr.Addr).(*Value)
		if addr == nil {
			fr.rtPanic(instr, "invalid memory address or nil pointer dereference")
		}
		w.noteStore(addr)
		store(addr, fr.get(instr.Val))

	case *ssa.If:
		c := fr.get(instr.Cond).(Bool)
		succ := 1
		if w.decideBool(c, "if@"+fr.site(instr)) {
			succ = 0
		}
		fr.prevBlock, fr.block = fr.block, fr.block.Succs[succ]
		w.noteLoop(fr)
		return kJump

	case *ssa.Jump:
		fr.prevBlock, fr.block = fr.block, fr.block.Succs[0]
		w.noteLoop(fr)
		return kJump

	case *ssa.Defer:
		fn, args := w.prepareCall(fr, &instr.Call, instr)
		defers := &fr.defers
		if instr.DeferStack != nil {
			if into := fr.get(instr.DeferStack); into != nil {
				defers = into.(**deferred)
			}
		}
		*defers = &deferred{fn: fn, args: args, pos: instr.Pos(), tail: *defers}

	case *ssa.Go:
		fn, args := w.prepareCall(fr, &instr.Call, instr)
		w.spawn(fr, instr, fn, args)

	case *ssa.MakeChan:
		n := w.concInt(fr.get(instr.Size).(Int), "makechan")
		w.chanSeq++
		fr.set(instr, &Chan{Cap: int(n), ID: w.chanSeq, Elem: instr.Type().Underlying().(*types.Chan).Elem()})

	case *ssa.Alloc:
		var addr *Value
		if instr.Heap {
			addr = new(Value)
			fr.set(instr, addr)
			w.noteAlloc(fr, instr)
		} else {
			addr = fr.get(instr).(*Value)
		}
		*addr = zero(mustDeref(instr.Type()))

	case *ssa.MakeSlice:
		fr.set(instr, w.makeSlice(fr, instr))

	case *ssa.MakeMap:
		fr.set(instr, newMap(instr.Type().Underlying().(*types.Map)))

	case *ssa.Range:
		fr.set(instr, w.rangeIter(fr, instr, fr.get(instr.X)))

	case *ssa.Next:
		fr.set(instr, fr.get(instr.Iter).(iter).next(w))

	case *ssa.FieldAddr:
		p := fr.get(instr.X).(*Value)
		if p == nil {
			fr.rtPanic(instr, "invalid memory address or nil pointer dereference")
		}
		fr.set(instr, &(*p).(Struct)[instr.Field])

	case *ssa.Field:
		fr.set(instr, fr.get(instr.X).(Struct)[instr.Field])

	case *ssa.IndexAddr:
		fr.set(instr, w.indexAddr(fr, instr))

	case *ssa.Index:
		fr.set(instr, w.index(fr, instr))

	case *ssa.Lookup:
		fr.set(instr, w.lookup(fr, instr))

	case *ssa.MapUpdate:
		m := fr.get(instr.Map).(*Map)
		if m == nil {
			fr.rtPanic(instr, "assignment to entry in nil map")
		}
		w.noteMap(m, true)
		w.mapInsert(m, fr.get(instr.Key), fr.get(instr.Value))

	case *ssa.TypeAssert:
		fr.set(instr, w.typeAssert(fr, instr, fr.get(instr.X).(Iface)))

	case *ssa.MakeClosure:
		var bindings []Value
		for _, b := range instr.Bindings {
			bindings = append(bindings, fr.get(b))
		}
		fr.set(instr, &Closure{Fn: instr.Fn.(*ssa.Function), Env: bindings})

	case *ssa.Select:
		fr.set(instr, w.selectOp(fr, instr))

	default:
		panic(pathAbort{"engine", fmt.Sprintf("unsupported instruction %T in %s", instr, fr.fn)})
	}
	return kNext
}

func panicMsg(v Value) string {
	if i, ok := v.(Iface); ok {
		if s, ok := i.V.(Str); ok && s.IsConc() {
			return s.S
		}
		if i.T != nil {
			return "panic(" + i.T.String() + ")"
		}
	}
	return "panic"
}

// ---------------------------------------------------------------------------
// slices, indexing

func (w *Worker) asSlice(v Value) Slice {
	switch v := v.(type) {
	case Slice:
		return v
	case *LazySlice:
		return w.concretizeLazy(v)
	}
	panic(pathAbort{"engine", fmt.Sprintf("asSlice: %T", v)})
}

func (w *Worker) makeSlice(fr *frame, instr *ssa.MakeSlice) Value {
	ln := fr.get(instr.Len).(Int)
	cp := fr.get(instr.Cap).(Int)
	tElt := instr.Type().Underlying().(*types.Slice).Elem()
	if ln.T != nil && cp.T == ln.T && w.E.Cfg.LazyMake {
		// negative length panics
		neg := w.P.Cmp(OpSlt, ln.T, w.P.Const(64, 0))
		if w.decide(neg, "makeslice-neg") {
			fr.rtPanic(instr, "makeslice: len out of range")
		}
		return &LazySlice{Len: ln.T, Elem: tElt}
	}
	l := int64(w.concInt(ln, "makeslice-len"))
	c := l
	if cp.T != ln.T || cp.C != ln.C {
		c = int64(w.concInt(cp, "makeslice-cap"))
	}
	if l < 0 || c < l || c > 1<<26 {
		fr.rtPanic(instr, "makeslice: len out of range")
	}
	w.noteAllocN(fr, instr, int(c))
	s := make(Slice, c)
	fillZero(s, tElt)
	return s[:l]
}

func fillZero(s Slice, tElt types.Type) {
	if b, ok := tElt.Underlying().(*types.Basic); ok && b.Kind() == types.Uint8 {
		z := byteVal(0)
		for i := range s {
			s[i] = z
		}
		return
	}
	for i := range s {
		s[i] = zero(tElt)
	}
}

func (w *Worker) concretizeLazy(l *LazySlice) Slice {
	if l.done {
		return l.conc
	}
	n := int(w.concretize(l.Len, "lazyslice-len"))
	if n > 1<<20 {
		panic(pathAbort{"inconclusive", "lazy slice concretised to a huge length"})
	}
	s := make(Slice, n)
	for i := range s {
		if i < len(l.cells) && l.cells[i] != nil {
			s[i] = *l.cells[i]
		} else {
			s[i] = zero(l.Elem)
		}
	}
	l.conc = s
	l.done = true
	return s
}

func (w *Worker) sliceOp(fr *frame, instr *ssa.Slice) Value {
	x := fr.get(instr.X)
	var lo, hi, max int = 0, -1, -1
	getI := func(v ssa.Value, what string) int {
		if v == nil {
			return -1
		}
		i := fr.get(v).(Int)
		if i.T != nil {
			return int(int64(w.concretize(i.T, what)))
		}
		return int(sext64(i.C, int(i.W)))
	}
	if instr.Low != nil {
		lo = getI(instr.Low, "slice-lo")
	}
	hi = getI(instr.High, "slice-hi")
	max = getI(instr.Max, "slice-max")
	if instr.Low != nil && lo < 0 {
		fr.rtPanic(instr, "slice bounds out of range [-]")
	}
	switch x := x.(type) {
	case Str:
		n := x.Len()
		if instr.High == nil {
			hi = n
		}
		if hi < 0 || hi > n {
			fr.rtPanic(instr, fmt.Sprintf("slice bounds out of range [:%d] with length %d", hi, n))
		}
		if lo > hi {
			fr.rtPanic(instr, fmt.Sprintf("slice bounds out of range [%d:%d]", lo, hi))
		}
		return x.Sub(lo, hi)
	case *Value: // *array
		if x == nil {
			fr.rtPanic(instr, "invalid memory address or nil pointer dereference")
		}
		a := (*x).(Array)
		return doSlice(fr, instr, Slice(a), lo, hi, max, instr.High == nil, instr.Max == nil)
	case Slice:
		return doSlice(fr, instr, x, lo, hi, max, instr.High == nil, instr.Max == nil)
	case *LazySlice:
		return doSlice(fr, instr, w.concretizeLazy(x), lo, hi, max, instr.High == nil, instr.Max == nil)
	}
	panic(pathAbort{"engine", fmt.Sprintf("slice: unexpected X type %T", x)})
}

func doSlice(fr *frame, instr ssa.Instruction, s Slice, lo, hi, max int, noHi, noMax bool) Value {
	if noHi {
		hi = len(s)
	}
	if noMax {
		max = cap(s)
	}
	if max < 0 || max > cap(s) {
		fr.rtPanic(instr, fmt.Sprintf("slice bounds out of range [::%d] with capacity %d", max, cap(s)))
	}
	if hi < 0 || hi > max {
		if noMax {
			fr.rtPanic(instr, fmt.Sprintf("slice bounds out of range [:%d] with capacity %d", hi, cap(s)))
		}
		fr.rtPanic(instr, fmt.Sprintf("slice bounds out of range [:%d:%d]", hi, max))
	}
	if lo > hi {
		fr.rtPanic(instr, fmt.Sprintf("slice bounds out of range [%d:%d]", lo, hi))
	}
	if s == nil {
		return Slice(nil)
	}
	return s[lo:hi:max]
}

// boundsIndex resolves idx against length n; panics (target) when out of
// range; forks when symbolic.
func (w *Worker) boundsIndex(fr *frame, instr ssa.Instruction, idx Int, n int) int {
	if idx.T == nil {
		var iv int64
		if w.idxSigned {
			iv = sext64(idx.C, int(idx.W))
		} else if idx.C > 1<<62 {
			iv = -1
		} else {
			iv = int64(idx.C)
		}
		if iv < 0 || iv >= int64(n) {
			fr.rtPanic(instr, fmt.Sprintf("index out of range [%d] with length %d", iv, n))
		}
		return int(iv)
	}
	t := idx.T
	if t.W < 64 {
		if w.idxSigned {
			t = w.P.SExt(t, 64)
		} else {
			t = w.P.ZExt(t, 64)
		}
	}
	inb := w.P.Cmp(OpUlt, t, w.P.Const(64, uint64(n)))
	if !w.decide(inb, "bounds@"+fr.site(instr)) {
		fr.rtPanic(instr, fmt.Sprintf("index out of range [symbolic] with length %d", n))
	}
	return int(w.concretize(t, "index@"+fr.site(instr)))
}

func (w *Worker) setIdxSigned(t types.Type) {
	_, s, _ := widthOf(t)
	w.idxSigned = s
}

func (w *Worker) indexAddr(fr *frame, instr *ssa.IndexAddr) Value {
	x := fr.get(instr.X)
	idx := fr.get(instr.Index).(Int)
	w.setIdxSigned(instr.Index.Type())
	switch x := x.(type) {
	case Slice:
		return &x[w.boundsIndex(fr, instr, idx, len(x))]
	case *Value:
		if x == nil {
			fr.rtPanic(instr, "invalid memory address or nil pointer dereference")
		}
		a := (*x).(Array)
		return &a[w.boundsIndex(fr, instr, idx, len(a))]
	case *LazySlice:
		if x.done {
			return &x.conc[w.boundsIndex(fr, instr, idx, len(x.conc))]
		}
		i := int(w.concInt(idx, "lazy-index"))
		inb := w.P.Cmp(OpSlt, w.P.Const(64, uint64(i)), x.Len)
		if i < 0 || !w.decide(inb, "lazybounds@"+fr.site(instr)) {
			fr.rtPanic(instr, fmt.Sprintf("index out of range [%d] with symbolic length", i))
		}
		for len(x.cells) <= i {
			x.cells = append(x.cells, nil)
		}
		if x.cells[i] == nil {
			c := zero(x.Elem)
			x.cells[i] = &c
		}
		return x.cells[i]
	}
	panic(pathAbort{"engine", fmt.Sprintf("indexAddr: unexpected X type %T", x)})
}

func (w *Worker) index(fr *frame, instr *ssa.Index) Value {
	x := fr.get(instr.X)
	idx := fr.get(instr.Index).(Int)
	w.setIdxSigned(instr.Index.Type())
	switch x := x.(type) {
	case Array:
		if idx.T != nil {
			return w.symSelect(fr, instr, []Value(x), idx)
		}
		return copyVal(x[w.boundsIndex(fr, instr, idx, len(x))])
	case Str:
		if idx.T != nil {
			vals := make([]Value, x.Len())
			for i := range vals {
				vals[i] = x.At(i)
			}
			return w.symSelect(fr, instr, vals, idx)
		}
		return x.At(w.boundsIndex(fr, instr, idx, x.Len()))
	}
	panic(pathAbort{"engine", fmt.Sprintf("index: unexpected X type %T", x)})
}

// symSelect reads vals[idx] for a symbolic idx.  Integer element types become
// an ite-chain (no fork); other types fork on the index value.
func (w *Worker) symSelect(fr *frame, instr ssa.Instruction, vals []Value, idx Int) Value {
	n := len(vals)
	t := idx.T
	if t.W < 64 {
		if w.idxSigned {
			t = w.P.SExt(t, 64)
		} else {
			t = w.P.ZExt(t, 64)
		}
	}
	inb := w.P.Cmp(OpUlt, t, w.P.Const(64, uint64(n)))
	if !w.decide(inb, "bounds@"+fr.site(instr)) {
		fr.rtPanic(instr, fmt.Sprintf("index out of range [symbolic] with length %d", n))
	}
	allInt := n > 0 && n <= 512
	for _, v := range vals {
		if _, ok := v.(Int); !ok {
			allInt = false
			break
		}
	}
	if !allInt {
		return copyVal(vals[int(w.concretize(t, "index@"+fr.site(instr)))])
	}
	wd := int(vals[0].(Int).W)
	res := w.intTerm(vals[n-1].(Int))
	for i := n - 2; i >= 0; i-- {
		res = w.P.Ite(w.P.Cmp(OpEq, t, w.P.Const(64, uint64(i))), w.intTerm(vals[i].(Int)), res)
	}
	return w.mkIntT(wd, res)
}

func (w *Worker) lookup(fr *frame, instr *ssa.Lookup) Value {
	x := fr.get(instr.X)
	switch x := x.(type) {
	case Str:
		idx := fr.get(instr.Index).(Int)
		w.setIdxSigned(instr.Index.Type())
		return x.At(w.boundsIndex(fr, instr, idx, x.Len()))
	case *Map:
		w.noteMap(x, false)
		key := fr.get(instr.Index)
		var v Value
		ok := false
		if x != nil {
			if e := w.mapFind(x, key); e != nil {
				v = copyVal(e.val)
				ok = true
			}
		}
		if !ok {
			v = zero(instr.X.Type().Underlying().(*types.Map).Elem())
		}
		if instr.CommaOk {
			return Tuple{v, mkBool(ok)}
		}
		return v
	}
	panic(pathAbort{"engine", fmt.Sprintf("lookup: unexpected X type %T", x)})
}
