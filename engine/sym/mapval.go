package sym

import (
	"fmt"
	"go/types"
	"strconv"
	"strings"

	"golang.org/x/tools/go/ssa"
)

type mapEntry struct {
	key     Value
	val     Value
	deleted bool
	hkey    string // canonical key when concrete ("" otherwise)
	conc    bool
}

// Map is an insertion-ordered table; keys may contain symbolic scalars.
type Map struct {
	T       *types.Map
	entries []*mapEntry
	index   map[string]*mapEntry // concrete keys
	nsym    int                  // live entries with symbolic keys
	live    int
}

func newMap(t *types.Map) *Map {
	return &Map{T: t, index: map[string]*mapEntry{}}
}

func (m *Map) Len() int { return m.live }

func (m *Map) clear() {
	m.entries = nil
	m.index = map[string]*mapEntry{}
	m.nsym = 0
	m.live = 0
}

// hashKey returns a canonical string for a fully concrete key.
func hashKey(v Value, sb *strings.Builder) bool {
	switch v := v.(type) {
	case Int:
		if v.T != nil {
			return false
		}
		sb.WriteByte('i')
		sb.WriteString(strconv.FormatUint(v.C, 16))
		sb.WriteByte(';')
	case Bool:
		if v.T != nil {
			return false
		}
		if v.C {
			sb.WriteString("T;")
		} else {
			sb.WriteString("F;")
		}
	case Str:
		if !v.IsConc() {
			return false
		}
		sb.WriteByte('s')
		sb.WriteString(strconv.Itoa(len(v.S)))
		sb.WriteByte(':')
		sb.WriteString(v.S)
		sb.WriteByte(';')
	case Struct:
		sb.WriteByte('{')
		for _, f := range v {
			if !hashKey(f, sb) {
				return false
			}
		}
		sb.WriteByte('}')
	case Array:
		sb.WriteByte('[')
		for _, f := range v {
			if !hashKey(f, sb) {
				return false
			}
		}
		sb.WriteByte(']')
	case *Value:
		fmt.Fprintf(sb, "p%p;", v)
	case *Map:
		fmt.Fprintf(sb, "m%p;", v)
	case *Chan:
		fmt.Fprintf(sb, "c%p;", v)
	case Iface:
		if v.T == nil {
			sb.WriteString("I-;")
			return true
		}
		sb.WriteString("I")
		sb.WriteString(v.T.String())
		sb.WriteByte(':')
		return hashKey(v.V, sb)
	case *ssa.Function:
		fmt.Fprintf(sb, "f%p;", v)
	default:
		panic(pathAbort{"engine", fmt.Sprintf("hashKey: unsupported map key %T", v)})
	}
	return true
}

// mapFind returns the entry for key, forking on symbolic key equality.
func (w *Worker) mapFind(m *Map, key Value) *mapEntry {
	var sb strings.Builder
	conc := hashKey(key, &sb)
	if conc && m.nsym == 0 {
		return m.index[sb.String()]
	}
	if !conc {
		key = w.maybeConcretizeKey(m, key)
		sb.Reset()
		if hashKey(key, &sb) && m.nsym == 0 {
			return m.index[sb.String()]
		}
	}
	for _, e := range m.entries {
		if e.deleted {
			continue
		}
		eq := w.valEq(key, e.key)
		if eq.IsConst() {
			if eq.K != 0 {
				return e
			}
			continue
		}
		if w.decide(eq, "mapkey") {
			return e
		}
	}
	return nil
}

// maybeConcretizeKey turns a symbolic scalar key into a concrete one when the
// number of feasible values is small (cheaper than one fork per entry).
func (w *Worker) maybeConcretizeKey(m *Map, key Value) Value {
	if w.E.Cfg.KeyEnumLimit <= 0 {
		return key
	}
	i, ok := key.(Int)
	if !ok || i.T == nil {
		return key
	}
	if m.live <= 2 {
		return key
	}
	// replay: the discovery run recorded whether the key was enumerated
	if w.pos < len(w.prefix) {
		d := w.prefix[w.pos]
		switch d.K {
		case 'k':
			w.pos++
			w.taken = append(w.taken, d)
			w.addPC(w.P.Cmp(OpEq, i.T, w.P.Const(i.T.W, d.V)))
			return mkInt(int(i.W), d.V)
		case 'n':
			w.pos++
			w.taken = append(w.taken, d)
			return key
		}
		panic(pathAbort{"engine", fmt.Sprintf("nondeterministic replay: decision %d should be a map-key decision, prefix says %c", w.pos, d.K)})
	}
	vals, complete := w.enumValues(i.T, w.E.Cfg.KeyEnumLimit)
	if !complete {
		w.taken = append(w.taken, Decision{'n', 0})
		return key
	}
	v := w.chooseValue(i.T, vals, "mapkey-enum", 'k')
	return mkInt(int(i.W), v)
}

func (w *Worker) mapInsert(m *Map, key, val Value) {
	if e := w.mapFind(m, key); e != nil {
		e.val = copyVal(val)
		return
	}
	e := &mapEntry{key: copyVal(key), val: copyVal(val)}
	var sb strings.Builder
	if hashKey(key, &sb) {
		e.conc = true
		e.hkey = sb.String()
		m.index[e.hkey] = e
	} else {
		m.nsym++
	}
	m.entries = append(m.entries, e)
	m.live++
}

func (w *Worker) mapDelete(m *Map, key Value) {
	e := w.mapFind(m, key)
	if e == nil {
		return
	}
	e.deleted = true
	if e.conc {
		delete(m.index, e.hkey)
	} else {
		m.nsym--
	}
	m.live--
}
