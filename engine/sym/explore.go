package sym

import (
	"fmt"
	"go/types"
	"math/rand"
	"os"
	"sort"
	"strings"
	"sync"
	"time"

	"golang.org/x/tools/go/ssa"
)

type Config struct {
	InstrBudget      int64
	LazyMake         bool
	KeyEnumLimit     int
	MaxFanout        int
	Workers          int
	SolverTimeoutMs  int
	HangIsViolation  bool
	Tier             int // 0 quick, 1 thorough
	Seed             int64
	Params           map[string]int64
	MaxPaths         int64
	MaxWall          time.Duration // wall-clock budget of one Explore call (0: none)
	ModulePath       string // functions under this path are reported as "encoded from /repo"
	Trace            bool
	ClockMode        string // "", "mono", "wall"
	AllocLimit       int64  // max heap cells allocated per path (0 = none)
	SecondSolver     string // thorough: cross-check final obligations
	MaxDecisions     int    // per-path cap on decisions
	ExploreSchedules bool   // scheduler choices at synchronisation points are explorer decisions
	MaxPreemptions   int
}

type Decision struct {
	K byte   // 'b' branch, 'v' value, 'r' range/choose
	V uint64 // option
}

func (d Decision) String() string { return fmt.Sprintf("%c%d", d.K, d.V) }

type Draw struct {
	Name  string   `json:"name"`
	Kind  string   `json:"kind"` // "int", "bool", "bytes", "str", "range"
	W     int      `json:"w,omitempty"`
	Val   uint64   `json:"val"`
	Bytes []byte   `json:"bytes,omitempty"`
	vars  []string // solver variable names (one per scalar / byte)
}

type Violation struct {
	Harness   string
	Kind      string // "assert", "panic", "hang", "deadlock"
	Label     string
	Site      string
	Msg       string
	Draws     []Draw
	Decisions []Decision
	Solver    string
}

func (v *Violation) Key() string { return v.Harness + "|" + v.Kind + ":" + v.Label }

type Stats struct {
	Paths          int64
	PathsByOutcome map[string]int64
	Decisions      int64
	MaxFanout      int
	Obligations    int64 // sent to solver
	ObligUnsat     int64
	ObligSat       int64
	ObligFolded    int64 // closed by constant folding alone
	BranchQueries  int64
	SolverQueries  int64
	SolverTime     time.Duration
	Steps          int64
	Assumes        int64
	WorldRebuilds  int64 // paths that wrote into setup state (globals); the world was rebuilt after each
}

type Sample struct {
	Harness   string   `json:"harness"`
	Decisions string   `json:"decisions"`
	Outcome   string   `json:"outcome"`
	Inputs    []string `json:"inputs,omitempty"`
}

// Engine is shared by all workers of one harness run.
type Engine struct {
	UsesTryLock bool // the module calls sync TryLock/TryRLock: lock holders become preemptible right after acquiring
	Prog    *ssa.Program
	Cfg     Config
	Harness string
	Fn      *ssa.Function
	Setup   *ssa.Function
	InitPkg []*ssa.Package // packages whose init is interpreted

	mu         sync.Mutex
	cond       *sync.Cond
	stack      [][]Decision
	active     int
	stop       bool
	Stats      Stats
	Violations map[string]*Violation
	Problems   []string // inconclusive / engine errors
	Reach      map[string]int64
	Funcs      map[string]bool
	Stubs      map[string]bool
	Samples    []Sample
	Assumed    map[string]bool
	Traces     []ConcTrace
	Mon        *MonitorLog

	firstViolation time.Time
	StoppedEarly   bool
	started        time.Time
}

type ConcTrace struct {
	Draws    []Draw
	Observes []string
	Outcome  string
}

func NewEngine(prog *ssa.Program, cfg Config) *Engine {
	e := &Engine{Prog: prog, Cfg: cfg}
	e.cond = sync.NewCond(&e.mu)
	e.reset()
	return e
}

func (e *Engine) reset() {
	e.stack = nil
	e.active = 0
	e.stop = false
	e.Stats = Stats{PathsByOutcome: map[string]int64{}}
	e.Violations = map[string]*Violation{}
	e.Problems = nil
	e.Reach = map[string]int64{}
	e.Funcs = map[string]bool{}
	e.Stubs = map[string]bool{}
	e.Samples = nil
	e.Assumed = map[string]bool{}
	e.Traces = nil
}

// Worker owns an interpreter heap, a term pool and a solver.
type Worker struct {
	E          *Engine
	id         int
	P          *TermPool
	S          *Solver
	S2         *Solver
	globals    map[*ssa.Global]*Value
	initedPkgs map[*ssa.Package]bool
	consts     map[*ssa.Const]Value
	implCache  map[interface{}]bool
	identCache map[typePair]bool
	intrCache  map[*ssa.Function]intrinsic
	ptrSlices  map[*Value]Slice
	funcsSeen  map[*ssa.Function]bool
	fnInfos    map[*ssa.Function]*fnInfo
	idxSigned  bool
	depth      int
	steps      int64
	chanSeq    int
	inSetup    bool
	concrete   bool
	rng        *rand.Rand
	curG       *goroutine

	// per path
	prefix    []Decision
	pos       int
	taken     []Decision
	pc        []*Term
	draws     []Draw
	observes  []string
	reach     []string
	allocs    int64
	loopVisit map[*ssa.BasicBlock]int
	clockLast *Term
	clockN    int
	pathState map[string]interface{}
	gs        []*goroutine
	stubsUsed map[string]bool
	assumes   map[string]bool

	pending     interface{}
	idleYields  int
	deadlockWhy string
	lockHook    func(what string, mu *Value, fr *frame)
	curFrame    *frame
	mon         *monitor
	frozen      map[*Value]bool // cells of the setup heap (globals and everything reachable)
	frozenMaps  map[*Map]bool
	dirty       bool
	preemptions int
	fixed       []Draw
	fixedPos    int
	model       map[string]uint64 // a model of the current path condition (nil: unknown)
	modelHits   int64
}

func (e *Engine) newWorker(id int) (*Worker, error) {
	w := &Worker{E: e, id: id}
	w.P = NewTermPool()
	s, err := StartSolver("z3", e.Cfg.SolverTimeoutMs)
	if err != nil {
		return nil, err
	}
	w.S = s
	if e.Cfg.SecondSolver != "" {
		s2, err := StartSolver(e.Cfg.SecondSolver, e.Cfg.SolverTimeoutMs)
		if err != nil {
			return nil, err
		}
		w.S2 = s2
	}
	w.globals = map[*ssa.Global]*Value{}
	w.initedPkgs = map[*ssa.Package]bool{}
	w.consts = map[*ssa.Const]Value{}
	w.implCache = map[interface{}]bool{}
	w.identCache = map[typePair]bool{}
	w.intrCache = map[*ssa.Function]intrinsic{}
	w.ptrSlices = map[*Value]Slice{}
	w.funcsSeen = map[*ssa.Function]bool{}
	w.fnInfos = map[*ssa.Function]*fnInfo{}
	w.stubsUsed = map[string]bool{}
	w.assumes = map[string]bool{}
	w.rng = rand.New(rand.NewSource(e.Cfg.Seed + int64(id)*7919))
	return w, nil
}

func (w *Worker) close() {
	w.S.Close()
	if w.S2 != nil {
		w.S2.Close()
	}
}

// initWorld runs package initialisers and Setup once for this worker.
func (w *Worker) initWorld() (err error) {
	defer func() {
		if r := recover(); r != nil {
			switch r := r.(type) {
			case pathAbort:
				err = fmt.Errorf("setup aborted: %s: %s", r.Kind, r.Msg)
			case targetPanic:
				err = fmt.Errorf("setup panicked: %s at %s", r.Msg, r.Site)
			default:
				err = fmt.Errorf("engine crash during setup: %v\n%s", r, w.StackTrace())
			}
		}
	}()
	w.inSetup = true
	w.resetPath(nil)
	for _, p := range w.E.InitPkg {
		w.initedPkgs[p] = true
	}
	for _, p := range w.E.InitPkg {
		if f := p.Func("init"); f != nil {
			w.call(nil, 0, f, nil)
		}
	}
	if w.E.Setup != nil {
		w.call(nil, 0, w.E.Setup, nil)
	}
	w.inSetup = false
	// remember the setup heap: a path that writes into it (e.g. mutated code
	// changing a registry entry) must not leak into the next path
	fm := &monitor{names: map[*Value]string{}, maps: map[*Map]string{}}
	for _, g := range w.globals {
		w.walkShared(fm, g, "g", 0)
	}
	w.frozen = make(map[*Value]bool, len(fm.names))
	for c := range fm.names {
		w.frozen[c] = true
	}
	w.frozenMaps = make(map[*Map]bool, len(fm.maps))
	for m := range fm.maps {
		w.frozenMaps[m] = true
	}
	w.dirty = false
	return nil
}

// rebuildWorld re-runs the initialisers and Setup on a fresh heap.
func (w *Worker) rebuildWorld() error {
	w.globals = map[*ssa.Global]*Value{}
	w.initedPkgs = map[*ssa.Package]bool{}
	w.frozen, w.frozenMaps = nil, nil
	return w.initWorld()
}

func (w *Worker) resetPath(prefix []Decision) {
	w.prefix = prefix
	w.pos = 0
	w.taken = w.taken[:0]
	w.pc = w.pc[:0]
	w.draws = nil
	w.observes = nil
	w.reach = nil
	w.allocs = 0
	w.steps = 0
	w.depth = 0
	w.loopVisit = map[*ssa.BasicBlock]int{}
	w.clockLast = nil
	w.clockN = 0
	w.pathState = map[string]interface{}{}
	w.mon = nil
	w.lockHook = nil
	w.preemptions = 0
	w.model = map[string]uint64{}
	w.gs = nil
	w.curG = nil
	w.chanSeq = 0
}

func (w *Worker) noteFunc(fn *ssa.Function) {
	if w.funcsSeen[fn] {
		return
	}
	w.funcsSeen[fn] = true
}

func (w *Worker) noteLoop(fr *frame) {}

func (w *Worker) noteAlloc(fr *frame, instr ssa.Instruction) { w.noteAllocN(fr, instr, 1) }

func (w *Worker) noteAllocN(fr *frame, instr ssa.Instruction, n int) {
	w.allocs += int64(n)
	if w.E.Cfg.AllocLimit > 0 && !w.inSetup && w.allocs > w.E.Cfg.AllocLimit {
		panic(pathAbort{"budget", "allocation budget exceeded at " + fr.site(instr)})
	}
}

// ---------------------------------------------------------------------------
// decisions

func (w *Worker) nextPrefix(kind byte) (Decision, bool) {
	if w.pos < len(w.prefix) {
		d := w.prefix[w.pos]
		w.pos++
		if d.K != kind {
			panic(pathAbort{"engine", fmt.Sprintf("nondeterministic replay: decision %d is %c, prefix says %c", w.pos-1, kind, d.K)})
		}
		w.taken = append(w.taken, d)
		return d, true
	}
	return Decision{}, false
}

func (w *Worker) pushSibling(d Decision) {
	if w.E.stop && !w.concrete {
		// the exploration was stopped (counterexample in hand, or budget): do not finish a long path
		panic(pathAbort{"stopped", "exploration stopped"})
	}
	if w.E.Cfg.MaxWall > 0 && !w.concrete && time.Since(w.E.started) > w.E.Cfg.MaxWall+time.Minute {
		w.E.mu.Lock()
		if !w.E.stop {
			w.E.stop = true
			w.E.Problems = append(w.E.Problems, fmt.Sprintf("wall-clock budget of %v for one harness function exhausted inside a path: the remaining paths were not explored", w.E.Cfg.MaxWall))
		}
		w.E.mu.Unlock()
		panic(pathAbort{"stopped", "exploration stopped"})
	}
	if len(w.taken) > w.E.Cfg.MaxDecisions {
		// a chain of forks this deep is a loop over symbolic data: sibling prefixes
		// are copied per fork, so memory is quadratic in the depth
		panic(pathAbort{"budget", fmt.Sprintf("more than %d decisions on one path", w.E.Cfg.MaxDecisions)})
	}
	alt := make([]Decision, len(w.taken)+1)
	copy(alt, w.taken)
	alt[len(w.taken)] = d
	w.E.mu.Lock()
	w.E.stack = append(w.E.stack, alt)
	w.E.cond.Signal()
	w.E.mu.Unlock()
}

func (w *Worker) addPC(t *Term) {
	w.pc = append(w.pc, t)
	w.S.Assert(t)
	if w.S2 != nil {
		w.S2.Assert(t) // the second solver mirrors the path condition incrementally
	}
	if w.model != nil && !w.holdsInModel(t) {
		w.model = nil
	}
}

// holdsInModel evaluates a Bool term under the cached model (variables the
// model does not mention are unconstrained so far and read as 0, which the
// map's zero default keeps consistent for later evaluations).
func (w *Worker) holdsInModel(t *Term) bool {
	return Eval(t, w.model, map[*Term]uint64{}) != 0
}

// checkModel is check() that also fetches a model on Sat.
func (w *Worker) checkModel(extra *Term) (Result, map[string]uint64) {
	w.S.Push()
	w.S.Assert(extra)
	r, err := w.S.Check()
	if err != nil {
		w.S.Pop()
		panic(pathAbort{"inconclusive", err.Error()})
	}
	var m map[string]uint64
	if r == Sat {
		m = w.modelFromSolver()
	}
	w.S.Pop()
	return r, m
}

func (w *Worker) check(extra *Term) Result {
	r, err := w.S.CheckWith(extra)
	if err != nil {
		panic(pathAbort{"inconclusive", err.Error()})
	}
	return r
}

// decide resolves a symbolic condition, forking when both sides are feasible.
func (w *Worker) decide(c *Term, why string) bool {
	if c.IsConst() {
		return c.K != 0
	}
	if w.inSetup {
		panic(pathAbort{"engine", "symbolic branch during setup: " + why})
	}
	if d, ok := w.nextPrefix('b'); ok {
		if d.V == 1 {
			w.addPC(c)
			return true
		}
		w.addPC(w.P.BNot(c))
		return false
	}
	w.E.count(func(s *Stats) { s.BranchQueries++ })
	nc := w.P.BNot(c)
	if w.model != nil {
		// the cached model already witnesses one side: one query decides the other
		side := w.holdsInModel(c)
		other := nc
		if !side {
			other = c
		}
		r := w.check(other)
		sideV := uint64(0)
		if side {
			sideV = 1
		}
		if r != Unsat {
			w.pushSibling(Decision{'b', 1 - sideV})
			w.E.count(func(s *Stats) {
				s.Decisions++
				if s.MaxFanout < 2 {
					s.MaxFanout = 2
				}
			})
		}
		w.taken = append(w.taken, Decision{'b', sideV})
		if side {
			w.addPC(c)
		} else {
			w.addPC(nc)
		}
		return side
	}
	rt, m := w.checkModel(c)
	if rt == Unsat {
		// PC is satisfiable by invariant, so the other side is feasible
		w.taken = append(w.taken, Decision{'b', 0})
		w.addPC(nc)
		return false
	}
	rf := w.check(nc)
	if rf != Unsat {
		// both feasible (or unknown: keep both)
		w.pushSibling(Decision{'b', 0})
		w.E.count(func(s *Stats) {
			s.Decisions++
			if s.MaxFanout < 2 {
				s.MaxFanout = 2
			}
		})
	}
	w.taken = append(w.taken, Decision{'b', 1})
	w.addPC(c)
	if rt == Sat && m != nil {
		w.model = m
	}
	return true
}

func (w *Worker) decideBool(b Bool, why string) bool {
	if b.T == nil {
		return b.C
	}
	return w.decide(b.T, why)
}

// enumValues enumerates the feasible values of t under the path condition,
// up to limit; complete reports whether the enumeration is exhaustive.
func (w *Worker) enumValues(t *Term, limit int) (vals []uint64, complete bool) {
	var vars []*Term
	CollectVars(t, map[*Term]bool{}, &vars)
	w.S.Push()
	defer w.S.Pop()
	for len(vals) <= limit {
		r, err := w.S.Check()
		if err != nil {
			panic(pathAbort{"inconclusive", err.Error()})
		}
		if r == Unsat {
			return vals, true
		}
		if r == Unknown {
			panic(pathAbort{"inconclusive", "solver unknown while enumerating values"})
		}
		m, err := w.S.Values(vars)
		if err != nil {
			panic(pathAbort{"inconclusive", err.Error()})
		}
		v := Eval(t, m, map[*Term]uint64{})
		vals = append(vals, v)
		w.S.Assert(w.P.BNot(w.P.Cmp(OpEq, t, w.P.Const(t.W, v))))
	}
	return vals, false
}

// chooseValue forks over the given feasible values of t.
func (w *Worker) chooseValue(t *Term, vals []uint64, why string, kind byte) uint64 {
	if len(vals) == 0 {
		panic(pathAbort{"infeasible", "no feasible value: " + why})
	}
	sort.Slice(vals, func(i, j int) bool { return vals[i] < vals[j] })
	for _, v := range vals[1:] {
		w.pushSibling(Decision{kind, v})
	}
	w.taken = append(w.taken, Decision{kind, vals[0]})
	w.addPC(w.P.Cmp(OpEq, t, w.P.Const(t.W, vals[0])))
	w.E.count(func(s *Stats) {
		s.Decisions++
		if s.MaxFanout < len(vals) {
			s.MaxFanout = len(vals)
		}
	})
	return vals[0]
}

// concretize resolves a symbolic term to one concrete value per path.
func (w *Worker) concretize(t *Term, why string) uint64 {
	if t.IsConst() {
		return t.K
	}
	if w.inSetup {
		panic(pathAbort{"engine", "symbolic value during setup: " + why})
	}
	if d, ok := w.nextPrefix('v'); ok {
		w.addPC(w.P.Cmp(OpEq, t, w.P.Const(t.W, d.V)))
		return d.V
	}
	vals, complete := w.enumValues(t, w.E.Cfg.MaxFanout)
	if !complete {
		panic(pathAbort{"inconclusive", fmt.Sprintf("case split wider than %d values: %s", w.E.Cfg.MaxFanout, why)})
	}
	return w.chooseValue(t, vals, why, 'v')
}

func (w *Worker) concInt(i Int, why string) uint64 {
	if i.T == nil {
		return i.C
	}
	return w.concretize(i.T, why)
}

// split is a pure structural choice among n options (no solver).
func (w *Worker) split(n int) int {
	if n <= 0 {
		panic(pathAbort{"engine", "split over empty range"})
	}
	if w.concrete {
		return w.rng.Intn(n)
	}
	if d, ok := w.nextPrefix('r'); ok {
		return int(d.V)
	}
	for i := n - 1; i >= 1; i-- {
		w.pushSibling(Decision{'r', uint64(i)})
	}
	w.taken = append(w.taken, Decision{'r', 0})
	w.E.count(func(s *Stats) {
		s.Decisions++
		if s.MaxFanout < n {
			s.MaxFanout = n
		}
	})
	return 0
}

func (w *Worker) assume(t *Term, label string) {
	w.E.count(func(s *Stats) { s.Assumes++ })
	if t.IsConst() {
		if t.K == 0 {
			panic(pathAbort{"assume", label})
		}
		return
	}
	// when replaying a prefix the assumption was feasible at discovery time
	if w.pos >= len(w.prefix) {
		if w.model != nil && w.holdsInModel(t) {
			// witnessed by the cached model
		} else {
			r, m := w.checkModel(t)
			if r == Unsat {
				panic(pathAbort{"assume", label})
			}
			w.addPC(t)
			if r == Sat && m != nil {
				w.model = m
			}
			return
		}
	}
	w.addPC(t)
}

func (e *Engine) count(f func(*Stats)) {
	e.mu.Lock()
	f(&e.Stats)
	e.mu.Unlock()
}

// assertObligation checks PC => c.
func (w *Worker) assertObligation(fr *frame, c Bool, label string) {
	if c.T == nil {
		w.E.count(func(s *Stats) { s.ObligFolded++ })
		if !c.C {
			w.reportViolation("assert", label, w.callerSite(fr), "assertion "+label+" is false on this path", nil)
			panic(pathAbort{"done", "assertion failed concretely"})
		}
		return
	}
	// a counterexample for this assertion is already recorded: do not search for
	// another one (satisfiable division queries are slow), just continue under it
	w.E.mu.Lock()
	_, have := w.E.Violations[w.E.Harness+"|assert:"+label]
	w.E.mu.Unlock()
	if have {
		w.assume(c.T, "after-violation:"+label)
		return
	}
	neg := w.P.BNot(c.T)
	w.E.count(func(s *Stats) { s.Obligations++ })
	w.S.Push()
	w.S.Assert(neg)
	r, err := w.S.Check()
	if err != nil {
		w.S.Pop()
		panic(pathAbort{"inconclusive", err.Error()})
	}
	switch r {
	case Unsat:
		w.S.Pop()
		if w.S2 != nil {
			r2 := w.checkSecond(neg)
			if r2 == Sat {
				panic(pathAbort{"inconclusive", "solvers disagree on obligation " + label})
			}
			if r2 == Unknown {
				w.E.addProblem("second solver unknown on obligation " + label)
			}
		}
		w.E.count(func(s *Stats) { s.ObligUnsat++ })
	case Sat:
		model := w.modelFromSolver()
		w.S.Pop()
		w.E.count(func(s *Stats) { s.ObligSat++ })
		w.reportViolation("assert", label, w.callerSite(fr), "assertion "+label+" can fail", model)
		// continue under the assumption that it holds
		if w.check(c.T) == Unsat {
			panic(pathAbort{"done", "assertion always fails"})
		}
		w.addPC(c.T)
	default:
		w.S.Pop()
		panic(pathAbort{"inconclusive", "solver unknown on obligation " + label})
	}
}

// checkSecond re-discharges PC && neg on the second solver.
func (w *Worker) checkSecond(neg *Term) Result {
	s := w.S2
	s.Push()
	defer s.Pop()
	s.Assert(neg)
	r, err := s.Check()
	if err != nil {
		return Unknown
	}
	return r
}

func (w *Worker) callerSite(fr *frame) string {
	if fr != nil && fr.caller != nil {
		return fr.caller.fn.String() + "@" + w.posStr(fr.callpos)
	}
	return ""
}

// modelFromSolver reads values for all draw variables; must follow a Sat.
func (w *Worker) modelFromSolver() map[string]uint64 {
	var vars []*Term
	for _, v := range w.P.Vars {
		vars = append(vars, v)
	}
	m, err := w.S.Values(vars)
	if err != nil {
		panic(pathAbort{"inconclusive", err.Error()})
	}
	return m
}

// currentModel gets a model of the path condition alone.
func (w *Worker) currentModel() map[string]uint64 {
	r, err := w.S.Check()
	if err != nil || r != Sat {
		return nil
	}
	return w.modelFromSolver()
}

func (w *Worker) drawsWithModel(model map[string]uint64) []Draw {
	out := make([]Draw, len(w.draws))
	for i, d := range w.draws {
		nd := d
		switch d.Kind {
		case "int", "bool", "env":
			if len(d.vars) == 1 {
				nd.Val = model[d.vars[0]]
			}
		case "bytes", "str":
			nd.Bytes = make([]byte, len(d.vars))
			for j, v := range d.vars {
				nd.Bytes[j] = byte(model[v])
			}
		}
		out[i] = nd
	}
	return out
}

func (w *Worker) reportViolation(kind, label, site, msg string, model map[string]uint64) {
	if model == nil && !w.concrete {
		model = w.currentModel()
	}
	v := &Violation{Harness: w.E.Harness, Kind: kind, Label: label, Site: site, Msg: msg, Solver: "z3"}
	if w.concrete {
		v.Draws = append([]Draw(nil), w.draws...)
	} else {
		v.Draws = w.drawsWithModel(model)
	}
	v.Decisions = append([]Decision(nil), w.taken...)
	w.E.mu.Lock()
	if _, ok := w.E.Violations[v.Key()]; !ok {
		w.E.Violations[v.Key()] = v
	}
	if w.E.firstViolation.IsZero() {
		w.E.firstViolation = time.Now()
	}
	w.E.mu.Unlock()
}

func (e *Engine) addProblem(p string) {
	e.mu.Lock()
	if len(e.Problems) < 50 {
		e.Problems = append(e.Problems, p)
	}
	e.mu.Unlock()
}

// ---------------------------------------------------------------------------
// running paths

func decString(ds []Decision) string {
	var sb strings.Builder
	for i, d := range ds {
		if i > 0 {
			sb.WriteByte(' ')
		}
		sb.WriteString(d.String())
	}
	return sb.String()
}

func (w *Worker) runPath(prefix []Decision) {
	w.resetPath(prefix)
	if !w.concrete {
		w.S.Push()
		if w.S2 != nil {
			w.S2.Push()
		}
	}
	outcome := "ok"
	func() {
		defer func() {
			r := recover()
			if r == nil {
				return
			}
			switch r := r.(type) {
			case pathAbort:
				switch r.Kind {
				case "assume", "infeasible", "done", "stopped":
					outcome = r.Kind
				case "budget":
					if w.E.Cfg.HangIsViolation {
						outcome = "hang"
						w.reportViolation("hang", "budget", r.Msg, "path exceeded its execution budget: "+r.Msg, nil)
					} else {
						outcome = "inconclusive"
						w.E.addProblem("budget: " + r.Msg + " [" + decString(w.taken) + "]")
					}
				case "deadlock":
					outcome = "deadlock"
					w.reportViolation("deadlock", "deadlock", r.Msg, "all goroutines blocked: "+r.Msg+w.blockedSummary(), nil)
				default:
					outcome = "inconclusive"
					w.E.addProblem(r.Kind + ": " + r.Msg + " [" + decString(w.taken) + "]")
				}
			case targetPanic:
				outcome = "panic"
				w.reportViolation("panic", panicLabel(r), r.Site, "uncaught panic: "+r.Msg+" at "+r.Site, nil)
			default:
				outcome = "inconclusive"
				w.E.addProblem(fmt.Sprintf("engine crash: %v [%s]\n%s", r, decString(w.taken), w.StackTrace()))
				if w.E.Cfg.Trace {
					panic(r)
				}
			}
		}()
		w.runHarness()
	}()
	w.killGoroutines()
	// sample: a concrete input driving this path
	var sample *Sample
	w.E.mu.Lock()
	needSample := len(w.E.Samples) < 6 && !w.concrete && (outcome == "ok" || outcome == "panic")
	w.E.mu.Unlock()
	if needSample {
		if m := w.currentModel(); m != nil {
			s := Sample{Harness: w.E.Harness, Decisions: decString(w.taken), Outcome: outcome}
			for _, d := range w.drawsWithModel(m) {
				switch d.Kind {
				case "bytes", "str":
					b := d.Bytes
					if len(b) > 24 {
						s.Inputs = append(s.Inputs, fmt.Sprintf("%s=%x...(%d bytes)", d.Name, b[:24], len(b)))
					} else {
						s.Inputs = append(s.Inputs, fmt.Sprintf("%s=%x", d.Name, b))
					}
				default:
					s.Inputs = append(s.Inputs, fmt.Sprintf("%s=%d", d.Name, d.Val))
				}
				if len(s.Inputs) >= 12 {
					break
				}
			}
			sample = &s
		}
	}
	if !w.concrete {
		w.S.Pop()
		if w.S2 != nil {
			w.S2.Pop()
		}
	}
	w.E.mu.Lock()
	w.E.Stats.Paths++
	w.E.Stats.PathsByOutcome[outcome]++
	w.E.Stats.Steps += w.steps
	if outcome == "ok" || outcome == "done" || outcome == "panic" || outcome == "hang" {
		for _, l := range w.reach {
			w.E.Reach[l]++
		}
	}
	if sample != nil && len(w.E.Samples) < 6 {
		w.E.Samples = append(w.E.Samples, *sample)
	}
	for fn := range w.funcsSeen {
		if fn.Pkg != nil && strings.HasPrefix(fn.Pkg.Pkg.Path(), w.E.Cfg.ModulePath) {
			w.E.Funcs[fn.String()] = true
		} else if fn.Pkg == nil {
			// methods of instantiated/wrapper functions: use their string form
			if strings.Contains(fn.String(), w.E.Cfg.ModulePath) {
				w.E.Funcs[fn.String()] = true
			}
		}
	}
	for s := range w.stubsUsed {
		w.E.Stubs[s] = true
	}
	for s := range w.assumes {
		w.E.Assumed[s] = true
	}
	if w.concrete {
		w.E.Traces = append(w.E.Traces, ConcTrace{Draws: append([]Draw(nil), w.draws...), Observes: append([]string(nil), w.observes...), Outcome: outcome})
	}
	// once a counterexample is in hand the verdict is fixed: do not spend
	// minutes (or gigabytes) enumerating the rest of a broken tree
	if !w.E.firstViolation.IsZero() && !w.E.stop && time.Since(w.E.firstViolation) > 30*time.Second {
		w.E.stop = true
		w.E.StoppedEarly = true
	}
	if w.E.Cfg.MaxWall > 0 && !w.E.stop && !w.concrete && time.Since(w.E.started) > w.E.Cfg.MaxWall {
		w.E.stop = true
		w.E.Problems = append(w.E.Problems, fmt.Sprintf("wall-clock budget of %v for one harness function exhausted after %d paths: the remaining paths were not explored", w.E.Cfg.MaxWall, w.E.Stats.Paths))
	}
	if len(w.E.Problems) > 200 && !w.E.stop {
		// the run is inconclusive already; do not enumerate an exploding tree to the end
		w.E.stop = true
		w.E.Problems = append(w.E.Problems, "more than 200 inconclusive paths: exploration stopped")
	}
	if w.E.Cfg.MaxPaths > 0 && w.E.Stats.Paths >= w.E.Cfg.MaxPaths && !w.E.stop {
		w.E.stop = true
		w.E.Problems = append(w.E.Problems, fmt.Sprintf("path limit %d reached", w.E.Cfg.MaxPaths))
	}
	w.E.mu.Unlock()
	if w.E.Cfg.Trace {
		fmt.Fprintf(os.Stderr, "[w%d] path %s -> %s (%d steps)\n", w.id, decString(w.taken), outcome, w.steps)
	}
	if w.dirty {
		w.E.count(func(s *Stats) { s.WorldRebuilds++ })
		if err := w.rebuildWorld(); err != nil {
			w.E.addProblem("rebuilding the setup state failed: " + err.Error())
		}
	}
	// bound the term pool
	if w.P.next > 2_000_000 {
		w.P = NewTermPool()
	}
}

func panicLabel(p targetPanic) string {
	return p.Site
}

func (w *Worker) runHarness() {
	w.call(nil, 0, w.E.Fn, nil)
	w.drainGoroutines()
}

// Explore runs the harness over all paths with n workers.
func (e *Engine) Explore() error {
	e.started = time.Now()
	e.stack = [][]Decision{{}}
	n := e.Cfg.Workers
	if n <= 0 {
		n = 1
	}
	var wg sync.WaitGroup
	errs := make(chan error, n)
	for i := 0; i < n; i++ {
		wg.Add(1)
		go func(id int) {
			defer wg.Done()
			w, err := e.newWorker(id)
			if err != nil {
				errs <- err
				return
			}
			defer w.close()
			if err := w.initWorld(); err != nil {
				errs <- err
				e.mu.Lock()
				e.stop = true
				e.cond.Broadcast()
				e.mu.Unlock()
				return
			}
			for {
				e.mu.Lock()
				for len(e.stack) == 0 && e.active > 0 && !e.stop {
					e.cond.Wait()
				}
				if e.stop || len(e.stack) == 0 {
					e.cond.Broadcast()
					e.mu.Unlock()
					break
				}
				p := e.stack[len(e.stack)-1]
				e.stack = e.stack[:len(e.stack)-1]
				e.active++
				e.mu.Unlock()
				w.runPath(p)
				e.mu.Lock()
				e.active--
				if e.active == 0 && len(e.stack) == 0 {
					e.cond.Broadcast()
				}
				e.mu.Unlock()
			}
			e.mu.Lock()
			e.Stats.SolverQueries += int64(w.S.Queries)
			e.Stats.SolverTime += w.S.Time
			if w.S2 != nil {
				e.Stats.SolverQueries += int64(w.S2.Queries)
				e.Stats.SolverTime += w.S2.Time
			}
			e.mu.Unlock()
		}(i)
	}
	wg.Wait()
	select {
	case err := <-errs:
		return err
	default:
	}
	return nil
}

// RunConcrete runs k concrete executions (translator validation): all draws
// take pseudo-random concrete values; returns the traces.
func (e *Engine) RunConcrete(k int, fixed [][]Draw) ([]ConcTrace, error) {
	w, err := e.newWorker(1000)
	if err != nil {
		return nil, err
	}
	defer w.close()
	if err := w.initWorld(); err != nil {
		return nil, err
	}
	w.concrete = true
	e.Traces = nil
	for i := 0; i < k; i++ {
		w.runPath(nil)
	}
	for _, f := range fixed {
		w.fixed, w.fixedPos = f, 0
		if w.fixed == nil {
			w.fixed = []Draw{}
		}
		w.runPath(nil)
	}
	return e.Traces, nil
}

var _ = types.Typ
