// Command gosx is the symbolic executor front end.
//
//	gosx run <pkg> <Func> [flags]         explore one harness function (debugging)
//	gosx check <property-id> [--tier quick|thorough]
//	gosx replay <file>
package main

import (
	"flag"
	"fmt"
	"os"
	"runtime/debug"
	"runtime/pprof"
	"sort"
	"strings"
	"time"

	"gosx/sym"
)

// The defaults are the registered configuration; the environment overrides
// exist only so that several scratch copies of the repository (seeded changes)
// can be checked side by side.
var (
	harnessDir = envOr("GOSX_HARNESS", "/verif/harness")
	repoDir    = envOr("GOSX_REPO", "/repo")
	outDir     = envOr("GOSX_OUT", "/verif")
)

func envOr(k, def string) string {
	if v := os.Getenv(k); v != "" {
		return v
	}
	return def
}

const modulePath = "github.com/vmware/go-ipfix"

func main() {
	// the loaded program (SSA and types of ~180 packages) is a large, static
	// heap: collect rarely instead of rescanning it for every few MB of garbage
	debug.SetGCPercent(300)
	debug.SetMemoryLimit(40 << 30)
	if len(os.Args) < 2 {
		usage()
	}
	switch os.Args[1] {
	case "run":
		os.Exit(cmdRun(os.Args[2:]))
	case "check":
		os.Exit(cmdCheck(os.Args[2:]))
	case "replay":
		os.Exit(cmdReplay(os.Args[2:]))
	default:
		usage()
	}
}

func usage() {
	fmt.Fprintln(os.Stderr, "usage: gosx run <pkg> <Func> | check <id> [--tier quick|thorough] | replay <file>")
	os.Exit(2)
}

func defaultConfig() sym.Config {
	return sym.Config{
		InstrBudget:     20_000_000,
		KeyEnumLimit:    24,
		MaxFanout:       4096,
		MaxDecisions:    4000,
		Workers:         16,
		SolverTimeoutMs: 30000,
		MaxWall:         40 * time.Minute,
		ModulePath:      modulePath,
		Params:          map[string]int64{},
	}
}

func cmdRun(args []string) int {
	fs := flag.NewFlagSet("run", flag.ExitOnError)
	workers := fs.Int("workers", 16, "workers")
	trace := fs.Bool("trace", false, "trace paths")
	tier := fs.Int("tier", 0, "tier")
	conc := fs.Int("concrete", 0, "run N concrete executions instead")
	clock := fs.String("clock", "", "clock mode")
	maxPaths := fs.Int64("maxpaths", 0, "stop after N paths")
	lazy := fs.Bool("lazy", false, "lazy make")
	hang := fs.Bool("hang", false, "budget overrun is a violation")
	budget := fs.Int64("budget", 20_000_000, "instruction budget per path")
	prof := fs.String("cpuprofile", "", "write a CPU profile")
	params := fs.String("params", "", "k=v,k=v harness parameters")
	sched := fs.Int("sched", -1, "explore schedules with at most N preemptions")
	fs.Parse(args)
	if *prof != "" {
		f, _ := os.Create(*prof)
		pprof.StartCPUProfile(f)
		defer pprof.StopCPUProfile()
	}
	if fs.NArg() < 2 {
		usage()
	}
	pkg, fn := fs.Arg(0), fs.Arg(1)
	p, err := sym.Load(harnessDir, nil, pkg)
	if err != nil {
		fmt.Fprintln(os.Stderr, "load:", err)
		return 2
	}
	fmt.Printf("loaded %d packages: load %.1fs ssa %.1fs\n", p.NumPkgs, p.LoadTime.Seconds(), p.SSATime.Seconds())
	cfg := defaultConfig()
	cfg.Workers = *workers
	cfg.Trace = *trace
	cfg.Tier = *tier
	cfg.ClockMode = *clock
	cfg.MaxPaths = *maxPaths
	cfg.LazyMake = *lazy
	cfg.HangIsViolation = *hang
	cfg.InstrBudget = *budget
	if *sched >= 0 {
		cfg.ExploreSchedules = true
		cfg.MaxPreemptions = *sched
	}
	for _, kv := range strings.Split(*params, ",") {
		if i := strings.IndexByte(kv, '='); i > 0 {
			var v int64
			fmt.Sscan(kv[i+1:], &v)
			cfg.Params[kv[:i]] = v
		}
	}
	e := sym.NewEngine(p.Prog, cfg)
	if err := e.Bind(p, fn); err != nil {
		fmt.Fprintln(os.Stderr, err)
		return 2
	}
	t0 := time.Now()
	if *conc > 0 {
		trs, err := e.RunConcrete(*conc, nil)
		if err != nil {
			fmt.Fprintln(os.Stderr, "concrete:", err)
			return 2
		}
		for _, t := range trs {
			fmt.Printf("trace outcome=%s draws=%d\n  %s\n", t.Outcome, len(t.Draws), strings.Join(t.Observes, "\n  "))
		}
	} else if err := e.Explore(); err != nil {
		fmt.Fprintln(os.Stderr, "explore:", err)
		return 2
	}
	printSummary(e, time.Since(t0))
	if e.Mon != nil {
		for r, v := range e.Mon.Summary() {
			fmt.Println("monitor role", r, v)
		}
		for _, c := range e.Mon.RaceCandidates() {
			fmt.Printf("RACE-CANDIDATE %s: %s [%s write=%v atomic=%v locks=%q] vs %s [%s write=%v atomic=%v locks=%q]\n", c.Loc, c.RoleA, c.A.Site, c.A.Write, c.A.Atomic, c.A.Locks, c.RoleB, c.B.Site, c.B.Write, c.B.Atomic, c.B.Locks)
		}
	}
	if len(e.Problems) > 0 {
		return 2
	}
	if len(e.Violations) > 0 {
		return 1
	}
	return 0
}

func printSummary(e *sym.Engine, d time.Duration) {
	s := e.Stats
	fmt.Printf("paths=%d %v decisions=%d maxfanout=%d obligations=%d (unsat %d, sat %d, folded %d) branchq=%d solverq=%d solver=%.1fs steps=%d wall=%.1fs\n",
		s.Paths, s.PathsByOutcome, s.Decisions, s.MaxFanout, s.Obligations, s.ObligUnsat, s.ObligSat, s.ObligFolded, s.BranchQueries, s.SolverQueries, s.SolverTime.Seconds(), s.Steps, d.Seconds())
	var labels []string
	for l, n := range e.Reach {
		labels = append(labels, fmt.Sprintf("%s=%d", l, n))
	}
	sort.Strings(labels)
	fmt.Println("reach:", strings.Join(labels, " "))
	fmt.Println("repo functions executed:", len(e.Funcs), " world rebuilds:", s.WorldRebuilds)
	for _, v := range e.Violations {
		fmt.Printf("CEX %s %s:%s at %s: %s\n", v.Harness, v.Kind, v.Label, v.Site, v.Msg)
		for _, d := range v.Draws {
			if d.Kind == "bytes" || d.Kind == "str" {
				b := d.Bytes
				if len(b) > 40 {
					fmt.Printf("    %s = %x... (%d)\n", d.Name, b[:40], len(b))
				} else {
					fmt.Printf("    %s = %x\n", d.Name, b)
				}
			} else {
				fmt.Printf("    %s = %d\n", d.Name, d.Val)
			}
		}
	}
	for _, p := range e.Problems {
		fmt.Println("PROBLEM:", p)
	}
	for _, s := range e.Samples {
		fmt.Printf("sample: [%s] -> %s %v\n", s.Decisions, s.Outcome, s.Inputs)
	}
}
