package main

import (
	_ "golang.org/x/tools/go/packages"
	_ "golang.org/x/tools/go/ssa"
	_ "golang.org/x/tools/go/ssa/ssautil"
)

func main() {}
