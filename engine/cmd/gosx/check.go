package main

import (
	"bufio"
	"bytes"
	"encoding/json"
	"flag"
	"fmt"
	"os"
	"os/exec"
	"path/filepath"
	"sort"
	"strconv"
	"strings"
	"time"

	"gosx/sym"
)

// HarnessSpec describes one harness function of a property.
type HarnessSpec struct {
	Func     string
	Reach    []string                           // vacuity guard: labels some feasible path must hit
	Tune     func(c *sym.Config, thorough bool) // bounds / engine options
	Vectors  int                                // concrete vectors for translator validation (0 = default)
	NoNative bool                               // harness cannot run natively as is (stubbed environment)
	Bounds   string                             // human-readable bounds (quick; thorough)
}

type PropSpec struct {
	ID            string
	Pkg           string // harness package pattern relative to /verif/harness
	ReplayPkg     string // native replay main
	Level         string
	Harnesses     []HarnessSpec
	Assumptions   []string
	Explanation   string // for level "other"
	Overlay       func() (map[string][]byte, error)
	NoNativeBuild bool // every harness runs against a stubbed environment: no native binary is built
}

type replayFile struct {
	Property string           `json:"property"`
	Harness  string           `json:"harness"`
	Tier     int              `json:"tier"`
	Params   map[string]int64 `json:"params"`
	Draws    []sym.Draw       `json:"draws"`
	Expect   string           `json:"expect"`
	Kind     string           `json:"kind,omitempty"`
	Label    string           `json:"label,omitempty"`
	Site     string           `json:"site,omitempty"`
	Msg      string           `json:"msg,omitempty"`
	Decis    string           `json:"decisions,omitempty"`
	Solver   string           `json:"solver,omitempty"`
}

type knownFindings struct {
	Findings []struct {
		Property string `json:"property"`
		Harness  string `json:"harness"`
		Match    string `json:"match"` // substring of "<kind>:<label>"
		What     string `json:"what"`
	} `json:"findings"`
	Fixed []string `json:"fixed"`
}

func loadKnown() knownFindings {
	var k knownFindings
	b, err := os.ReadFile("/verif/known_findings.json")
	if err == nil {
		json.Unmarshal(b, &k)
	}
	return k
}

func envInt(name string, def int64) int64 {
	if s := os.Getenv(name); s != "" {
		if v, err := strconv.ParseInt(s, 10, 64); err == nil {
			return v
		}
	}
	return def
}

func goEnv() []string {
	return append(os.Environ(), "GOFLAGS=-mod=mod", "GOPROXY=off", "GOSUMDB=off", "GOTOOLCHAIN=local")
}

// prepareHarnessModule refreshes go.sum from /repo (the harness module
// replaces go-ipfix by /repo's working tree).
func prepareHarnessModule() error {
	b, err := os.ReadFile(filepath.Join(repoDir, "go.sum"))
	if err != nil {
		return err
	}
	return os.WriteFile(filepath.Join(harnessDir, "go.sum"), b, 0o644)
}

type nativeResult struct {
	Outcome string
	Obs     []string
}

// buildNative compiles the replay main of a property from /repo's current tree.
func buildNative(spec *PropSpec, workDir string, overlayFile string) (string, error) {
	bin := filepath.Join(workDir, "replay-"+spec.ID)
	args := []string{"build", "-tags", "verif", "-o", bin}
	if overlayFile != "" {
		args = append(args, "-overlay", overlayFile)
	}
	args = append(args, spec.ReplayPkg)
	cmd := exec.Command("go", args...)
	cmd.Dir = harnessDir
	cmd.Env = goEnv()
	out, err := cmd.CombinedOutput()
	if err != nil {
		return "", fmt.Errorf("native build failed: %v\n%s", err, out)
	}
	return bin, nil
}

func runNative(bin, harness string, files []string, timeout time.Duration) (map[string]*nativeResult, error) {
	res := map[string]*nativeResult{}
	remaining := files
	for len(remaining) > 0 {
		args := append([]string{"-timeout=" + timeout.String(), harness}, remaining...)
		cmd := exec.Command(bin, args...)
		var out bytes.Buffer
		cmd.Stdout = &out
		cmd.Stderr = &out
		done := make(chan error, 1)
		if err := cmd.Start(); err != nil {
			return nil, err
		}
		go func() { done <- cmd.Wait() }()
		var werr error
		select {
		case werr = <-done:
		case <-time.After(timeout*time.Duration(len(remaining)) + 30*time.Second):
			cmd.Process.Kill()
			<-done
			werr = fmt.Errorf("native runner timed out")
		}
		sc := bufio.NewScanner(&out)
		sc.Buffer(make([]byte, 1<<20), 1<<26)
		lastDone := ""
		var crash []string
		for sc.Scan() {
			line := sc.Text()
			switch {
			case strings.HasPrefix(line, "OBS file="):
				rest := strings.TrimPrefix(line, "OBS file=")
				i := strings.IndexByte(rest, ' ')
				f := rest[:i]
				if res[f] == nil {
					res[f] = &nativeResult{}
				}
				res[f].Obs = append(res[f].Obs, rest[i+1:])
			case strings.HasPrefix(line, "REPLAY file="):
				rest := strings.TrimPrefix(line, "REPLAY file=")
				i := strings.Index(rest, " outcome=")
				f := rest[:i]
				if res[f] == nil {
					res[f] = &nativeResult{}
				}
				res[f].Outcome = rest[i+len(" outcome="):]
				lastDone = f
			default:
				crash = append(crash, line)
			}
		}
		// find what is left (the process may have exited on a hang or crashed)
		idx := -1
		for i, f := range remaining {
			if f == lastDone {
				idx = i
			}
		}
		next := remaining[idx+1:]
		if len(next) > 0 && len(next) == len(remaining) {
			// no progress: the first file crashed the process (fatal error, os.Exit)
			msg := "crash"
			if len(crash) > 0 {
				msg = "crash:" + crash[0]
			}
			if werr != nil && strings.Contains(werr.Error(), "timed out") {
				msg = "hang"
			}
			res[next[0]] = &nativeResult{Outcome: msg}
			next = next[1:]
		} else if len(next) > 0 && res[next[0]] != nil && res[next[0]].Outcome == "" {
			res[next[0]].Outcome = "crash"
			next = next[1:]
		}
		remaining = next
	}
	return res, nil
}

// replayDraws drops environment draws (symbolic clock readings): the native
// run reads the real clock.
func replayDraws(ds []sym.Draw) []sym.Draw {
	var out []sym.Draw
	for _, d := range ds {
		if d.Kind != "env" {
			out = append(out, d)
		}
	}
	return out
}

func violationExpect(v *sym.Violation) string {
	switch v.Kind {
	case "assert":
		return "assert:" + v.Label
	case "panic":
		return "panic"
	case "hang", "deadlock":
		return "hang"
	}
	return v.Kind
}

func outcomeMatches(expect, got string) bool {
	switch {
	case expect == "panic":
		return strings.HasPrefix(got, "panic:") || strings.HasPrefix(got, "crash")
	case expect == "hang":
		return got == "hang"
	}
	return expect == got
}

func cmdCheck(args []string) int {
	fs := flag.NewFlagSet("check", flag.ExitOnError)
	tier := fs.String("tier", os.Getenv("VERIF_TIER"), "quick|thorough")
	only := fs.String("only", "", "run only this harness function")
	workers := fs.Int("workers", 16, "workers")
	keep := fs.Bool("keep", false, "keep work dir")
	noEvidence := fs.Bool("no-evidence", false, "do not write the evidence file")
	fs.Parse(reorder(args))
	if fs.NArg() < 1 {
		usage()
	}
	id := fs.Arg(0)
	spec := findProp(id)
	if spec == nil {
		fmt.Fprintf(os.Stderr, "unknown property %s\n", id)
		return 2
	}
	thorough := *tier == "thorough"
	tierName := "quick"
	if thorough {
		tierName = "thorough"
	}
	seed := envInt("VERIF_SEED", 1)
	t0 := time.Now()
	known := loadKnown()

	if err := prepareHarnessModule(); err != nil {
		fmt.Fprintln(os.Stderr, "INCONCLUSIVE:", err)
		return 2
	}
	workDir := filepath.Join(outDir, ".work", fmt.Sprintf("%s-%d", id, os.Getpid()))
	os.MkdirAll(workDir, 0o755)
	if !*keep {
		defer os.RemoveAll(workDir)
	}
	var overlay map[string][]byte
	overlayFile := ""
	if spec.Overlay != nil {
		var err error
		overlay, err = spec.Overlay()
		if err != nil {
			fmt.Fprintln(os.Stderr, "INCONCLUSIVE: overlay:", err)
			return 2
		}
		// go build -overlay file
		repl := map[string]string{}
		for virt, content := range overlay {
			real := filepath.Join(workDir, strings.ReplaceAll(strings.TrimPrefix(virt, "/"), "/", "_"))
			os.WriteFile(real, content, 0o644)
			repl[virt] = real
		}
		ob, _ := json.Marshal(map[string]interface{}{"Replace": repl})
		overlayFile = filepath.Join(workDir, "overlay.json")
		os.WriteFile(overlayFile, ob, 0o644)
	}

	// native build in parallel with the load
	type buildRes struct {
		bin string
		err error
	}
	bch := make(chan buildRes, 1)
	go func() {
		if spec.NoNativeBuild {
			bch <- buildRes{"", nil}
			return
		}
		bin, err := buildNative(spec, workDir, overlayFile)
		bch <- buildRes{bin, err}
	}()

	prog, err := sym.Load(harnessDir, overlay, spec.Pkg)
	if err != nil {
		fmt.Fprintln(os.Stderr, "INCONCLUSIVE: load:", err)
		return 2
	}
	fmt.Printf("[%s %s] loaded %d packages from /repo working tree: load %.1fs, ssa %.1fs\n", id, tierName, prog.NumPkgs, prog.LoadTime.Seconds(), prog.SSATime.Seconds())

	ev := newEvidence(id, tierName, seed, spec)
	problems := 0
	var pendingViol []*sym.Violation
	type concRun struct {
		h      HarnessSpec
		traces []sym.ConcTrace
		params map[string]int64
	}
	var concRuns []concRun
	cfgOf := map[string]sym.Config{}
	var monLog *sym.MonitorLog

	for _, h := range spec.Harnesses {
		if *only != "" && h.Func != *only {
			continue
		}
		cfg := defaultConfig()
		cfg.Workers = *workers
		cfg.Seed = seed
		cfg.MaxWall = 10 * time.Minute // per harness function; a run that hits it is INCONCLUSIVE, never a pass
		if thorough {
			cfg.Tier = 1
			cfg.SecondSolver = "cvc5"
			cfg.MaxWall = 40 * time.Minute
		}
		if h.Tune != nil {
			h.Tune(&cfg, thorough)
		}
		cfgOf[h.Func] = cfg
		e := sym.NewEngine(prog.Prog, cfg)
		if err := e.Bind(prog, h.Func); err != nil {
			fmt.Fprintln(os.Stderr, "INCONCLUSIVE:", err)
			return 2
		}
		th := time.Now()
		if err := e.Explore(); err != nil {
			fmt.Fprintf(os.Stderr, "INCONCLUSIVE: %s: %v\n", h.Func, err)
			return 2
		}
		s := e.Stats
		fmt.Printf("[%s] %s: paths=%d %v decisions=%d obligations=%d (unsat %d, sat %d; folded %d) queries=%d solver=%.1fs wall=%.1fs\n",
			id, h.Func, s.Paths, s.PathsByOutcome, s.Decisions, s.Obligations, s.ObligUnsat, s.ObligSat, s.ObligFolded, s.SolverQueries, s.SolverTime.Seconds(), time.Since(th).Seconds())
		if e.StoppedEarly {
			fmt.Printf("NOTE: %s: exploration stopped 30 s after the first counterexample (the verdict is already a violation)\n", h.Func)
		}
		for _, l := range h.Reach {
			if e.StoppedEarly {
				break
			}
			if e.Reach[l] == 0 {
				fmt.Printf("INCONCLUSIVE: %s: reach label %q was hit by no feasible path (vacuity guard)\n", h.Func, l)
				problems++
			}
		}
		for _, p := range e.Problems {
			fmt.Printf("INCONCLUSIVE: %s: %s\n", h.Func, p)
			problems++
		}
		ev.addHarness(h, e, cfg)
		monLog = sym.MergeMonitor(monLog, e.Mon)
		var keys []string
		for k := range e.Violations {
			keys = append(keys, k)
		}
		sort.Strings(keys)
		for _, k := range keys {
			pendingViol = append(pendingViol, e.Violations[k])
		}
		// translator validation: concrete vectors through the interpreter
		if !h.NoNative {
			k := h.Vectors
			if k == 0 {
				k = 12
				if thorough {
					k = 40
				}
			}
			ce := sym.NewEngine(prog.Prog, cfg)
			ce.Bind(prog, h.Func)
			trs, err := ce.RunConcrete(k, nil)
			if err != nil {
				fmt.Printf("INCONCLUSIVE: %s: concrete mode: %v\n", h.Func, err)
				problems++
			} else {
				for _, p := range ce.Problems {
					fmt.Printf("INCONCLUSIVE: %s (concrete mode): %s\n", h.Func, p)
					problems++
				}
				concRuns = append(concRuns, concRun{h, trs, cfg.Params})
			}
		}
	}

	br := <-bch
	if br.err != nil {
		fmt.Println("INCONCLUSIVE:", br.err)
		problems++
	}

	// translator validation: same vectors through the native build
	tierNum := 0
	if thorough {
		tierNum = 1
	}
	if br.err == nil {
		for _, cr := range concRuns {
			var files []string
			for i, tr := range cr.traces {
				f := filepath.Join(workDir, fmt.Sprintf("vec-%s-%d.json", cr.h.Func, i))
				rf := replayFile{Property: id, Harness: cr.h.Func, Tier: tierNum, Params: cr.params, Draws: replayDraws(tr.Draws), Expect: tr.Outcome}
				b, _ := json.Marshal(rf)
				os.WriteFile(f, b, 0o644)
				files = append(files, f)
			}
			res, err := runNative(br.bin, cr.h.Func, files, 30*time.Second)
			if err != nil {
				fmt.Printf("INCONCLUSIVE: native run: %v\n", err)
				problems++
				continue
			}
			for i, tr := range cr.traces {
				r := res[files[i]]
				if r == nil {
					fmt.Printf("INCONCLUSIVE: translator validation: no native result for vector %d of %s\n", i, cr.h.Func)
					problems++
					continue
				}
				want := tr.Outcome
				if want == "assume" {
					want = "assume-failed"
				}
				ok := r.Outcome == want || (want == "panic" && strings.HasPrefix(r.Outcome, "panic:")) ||
					(want == "done" && strings.HasPrefix(r.Outcome, "assert:"))
				if ok && strings.Join(r.Obs, "\n") != strings.Join(tr.Observes, "\n") {
					ok = false
				}
				if !ok {
					fmt.Printf("INCONCLUSIVE: translator validation mismatch on %s vector %d: interpreter outcome=%s obs=%q, native outcome=%s obs=%q\n",
						cr.h.Func, i, tr.Outcome, tr.Observes, r.Outcome, r.Obs)
					problems++
					os.MkdirAll(filepath.Join(outDir, "replays", id), 0o755)
					b, _ := os.ReadFile(files[i])
					os.WriteFile(filepath.Join(outDir, "replays", id, fmt.Sprintf("mismatch-%s-%d.json", cr.h.Func, i)), b, 0o644)
				} else {
					ev.TracesValidated++
				}
			}
		}
	}

	// counterexamples: replay against the real build before reporting
	violations := 0
	knownHits := 0
	if len(pendingViol) > 0 && br.err == nil {
		os.MkdirAll(filepath.Join(outDir, "replays", id), 0o755)
		for i, v := range pendingViol {
			if i >= 12 {
				fmt.Printf("NOTE: %d further counterexamples not replayed\n", len(pendingViol)-i)
				break
			}
			hfn := v.Harness[strings.IndexByte(v.Harness, '.')+1:]
			path := filepath.Join(outDir, "replays", id, fmt.Sprintf("cex-%s-%d.json", hfn, i))
			rf := replayFile{Property: id, Harness: hfn, Tier: tierNum, Params: map[string]int64{}, Draws: replayDraws(v.Draws), Expect: violationExpect(v),
				Kind: v.Kind, Label: v.Label, Site: v.Site, Msg: v.Msg, Decis: fmt.Sprint(v.Decisions), Solver: v.Solver}
			b, _ := json.MarshalIndent(rf, "", " ")
			os.WriteFile(path, b, 0o644)
			noNative := false
			for _, h := range spec.Harnesses {
				if h.Func == hfn && h.NoNative {
					noNative = true
				}
			}
			what := fmt.Sprintf("%s %s:%s at %s - %s", v.Harness, v.Kind, v.Label, v.Site, v.Msg)
			if noNative {
				// the environment of this harness is stubbed (sockets, TLS, protobuf...):
				// the counterexample is replayed in the interpreter on its recorded
				// draws - the real code of /repo under the stated stubs - and
				// reported with that qualification
				re := sym.NewEngine(prog.Prog, cfgOf[hfn])
				re.Bind(prog, hfn)
				_, rerr := re.RunConcrete(0, [][]sym.Draw{v.Draws})
				_, again := re.Violations[v.Key()]
				ev.Replays++
				if rerr != nil || !again {
					fmt.Printf("INCONCLUSIVE: counterexample did not reproduce in the interpreter replay: %s [%s]\n", what, path)
					problems++
					continue
				}
				isKnown := false
				for _, k := range known.Findings {
					if k.Property == id && (k.Harness == "" || k.Harness == hfn) && strings.Contains(v.Kind+":"+v.Label, k.Match) {
						fmt.Printf("KNOWN-FINDING: property=%s %s\n", id, k.What)
						isKnown = true
						knownHits++
						break
					}
				}
				if isKnown {
					continue
				}
				fmt.Printf("counterexample reproduced by interpreter replay on the recorded inputs (real code of /repo, environment stubbed as listed in the evidence; a native replay needs the real environment): %s\n", what)
				fmt.Printf("VIOLATION property=%s replay=%s\n", id, path)
				violations++
				continue
			}
			res, err := runNative(br.bin, hfn, []string{path}, 20*time.Second)
			got := "no-result"
			if err == nil && res[path] != nil {
				got = res[path].Outcome
			}
			ev.Replays++
			if !outcomeMatches(rf.Expect, got) {
				fmt.Printf("INCONCLUSIVE: counterexample did not reproduce natively (expected %s, got %s): %s [%s]\n", rf.Expect, got, what, path)
				problems++
				continue
			}
			// known finding?
			isKnown := false
			for _, k := range known.Findings {
				if k.Property == id && (k.Harness == "" || k.Harness == hfn) && strings.Contains(v.Kind+":"+v.Label, k.Match) {
					fmt.Printf("KNOWN-FINDING: property=%s %s\n", id, k.What)
					isKnown = true
					knownHits++
					break
				}
			}
			if isKnown {
				continue
			}
			fmt.Printf("counterexample reproduced natively (%s): %s\n", got, what)
			fmt.Printf("VIOLATION property=%s replay=%s\n", id, path)
			violations++
		}
	} else if len(pendingViol) > 0 {
		problems++
	}

	// lock-discipline post-pass (C13, C14): lockset rule over all monitored paths
	if monLog != nil {
		ev.Monitor = monLog.Summary()
		cands := monLog.RaceCandidates()
		ev.RaceCandidates = len(cands)
		os.MkdirAll(filepath.Join(outDir, "replays", id), 0o755)
		for i, c := range cands {
			desc := fmt.Sprintf("unsynchronised conflicting accesses to shared location %s: role %s at %s (write=%v atomic=%v locks=%q) and role %s at %s (write=%v atomic=%v locks=%q)",
				c.Loc, c.RoleA, c.A.Site, c.A.Write, c.A.Atomic, c.A.Locks, c.RoleB, c.B.Site, c.B.Write, c.B.Atomic, c.B.Locks)
			label := c.Loc + " " + c.A.Site + " | " + c.B.Site
			isKnown := false
			for _, k := range known.Findings {
				if k.Property == id && strings.Contains("race:"+label, k.Match) {
					fmt.Printf("KNOWN-FINDING: property=%s %s\n", id, k.What)
					isKnown = true
					knownHits++
					break
				}
			}
			if isKnown {
				continue
			}
			path := filepath.Join(outDir, "replays", id, fmt.Sprintf("race-%d.json", i))
			rf := replayFile{Property: id, Harness: "lockset", Kind: "race", Label: label, Msg: desc, Expect: "race"}
			if v := monLog.First[c.RoleA+"|"+c.Loc+"|"+c.A.Site]; v != nil {
				rf.Draws = v.Draws
				rf.Decis = fmt.Sprint(v.Decisions)
				rf.Site = v.Harness
			}
			b, _ := json.MarshalIndent(rf, "", " ")
			os.WriteFile(path, b, 0o644)
			fmt.Printf("lock-discipline breach (lockset rule over all monitored paths of the real code; both access sites named; schedules are not enumerated): %s\n", desc)
			fmt.Printf("VIOLATION property=%s replay=%s\n", id, path)
			violations++
			if i >= 8 {
				break
			}
		}
	}

	ev.Violations = violations
	ev.KnownFindings = knownHits
	ev.Wall = time.Since(t0).Seconds()
	ev.Problems = problems
	if !*noEvidence {
		if err := ev.write(); err != nil {
			fmt.Println("INCONCLUSIVE: evidence:", err)
			problems++
		}
	}
	fmt.Printf("[%s %s] done in %.1fs: violations=%d known=%d problems=%d\n", id, tierName, time.Since(t0).Seconds(), violations, knownHits, problems)
	if violations > 0 {
		return 1
	}
	if problems > 0 {
		return 2
	}
	return 0
}

// reorder moves flags before positional args so "check C15 --tier quick" works.
func reorder(args []string) []string {
	var flags, pos []string
	for i := 0; i < len(args); i++ {
		a := args[i]
		if strings.HasPrefix(a, "-") {
			flags = append(flags, a)
			if !strings.Contains(a, "=") && i+1 < len(args) && !strings.HasPrefix(args[i+1], "-") {
				// flag with separate value (bool flags use =)
				name := strings.TrimLeft(a, "-")
				if name != "keep" && name != "no-evidence" {
					flags = append(flags, args[i+1])
					i++
				}
			}
		} else {
			pos = append(pos, a)
		}
	}
	return append(flags, pos...)
}

func cmdReplay(args []string) int {
	if len(args) < 1 {
		usage()
	}
	path := args[0]
	b, err := os.ReadFile(path)
	if err != nil {
		fmt.Fprintln(os.Stderr, err)
		return 2
	}
	var rf replayFile
	if err := json.Unmarshal(b, &rf); err != nil {
		fmt.Fprintln(os.Stderr, err)
		return 2
	}
	spec := findProp(rf.Property)
	if spec == nil {
		fmt.Fprintln(os.Stderr, "replay file names unknown property", rf.Property)
		return 2
	}
	if err := prepareHarnessModule(); err != nil {
		fmt.Fprintln(os.Stderr, err)
		return 2
	}
	workDir := filepath.Join(outDir, ".work", fmt.Sprintf("replay-%d", os.Getpid()))
	os.MkdirAll(workDir, 0o755)
	defer os.RemoveAll(workDir)
	overlayFile := ""
	if spec.Overlay != nil {
		overlay, err := spec.Overlay()
		if err != nil {
			fmt.Fprintln(os.Stderr, err)
			return 2
		}
		repl := map[string]string{}
		for virt, content := range overlay {
			real := filepath.Join(workDir, strings.ReplaceAll(strings.TrimPrefix(virt, "/"), "/", "_"))
			os.WriteFile(real, content, 0o644)
			repl[virt] = real
		}
		ob, _ := json.Marshal(map[string]interface{}{"Replace": repl})
		overlayFile = filepath.Join(workDir, "overlay.json")
		os.WriteFile(overlayFile, ob, 0o644)
	}
	noNative := false
	var hspec *HarnessSpec
	for i := range spec.Harnesses {
		if spec.Harnesses[i].Func == rf.Harness {
			hspec = &spec.Harnesses[i]
			noNative = hspec.NoNative
		}
	}
	if rf.Kind == "race" {
		// a lockset violation is a property of all monitored paths: re-run the check
		fmt.Println("lockset violation: re-running the quick check of", rf.Property)
		return cmdCheck([]string{rf.Property, "--tier", "quick", "--no-evidence"})
	}
	if noNative && hspec != nil {
		// interpreter replay on the recorded draws (stubbed environment)
		var overlay map[string][]byte
		if spec.Overlay != nil {
			overlay, _ = spec.Overlay()
		}
		prog, err := sym.Load(harnessDir, overlay, spec.Pkg)
		if err != nil {
			fmt.Fprintln(os.Stderr, "load:", err)
			return 2
		}
		cfg := defaultConfig()
		cfg.Tier = rf.Tier
		if hspec.Tune != nil {
			hspec.Tune(&cfg, rf.Tier > 0)
		}
		e := sym.NewEngine(prog.Prog, cfg)
		if err := e.Bind(prog, rf.Harness); err != nil {
			fmt.Fprintln(os.Stderr, err)
			return 2
		}
		if _, err := e.RunConcrete(0, [][]sym.Draw{rf.Draws}); err != nil {
			fmt.Fprintln(os.Stderr, err)
			return 2
		}
		for _, v := range e.Violations {
			if v.Kind == rf.Kind && v.Label == rf.Label {
				fmt.Printf("REPLAY (interpreter, environment stubbed) reproduced %s:%s - %s\n", v.Kind, v.Label, v.Msg)
				fmt.Printf("VIOLATION property=%s replay=%s\n", rf.Property, path)
				return 1
			}
		}
		fmt.Println("REPLAY (interpreter) did not reproduce the recorded violation")
		return 0
	}
	bin, err := buildNative(spec, workDir, overlayFile)
	if err != nil {
		fmt.Fprintln(os.Stderr, err)
		return 2
	}
	res, err := runNative(bin, rf.Harness, []string{path}, 20*time.Second)
	if err != nil || res[path] == nil {
		fmt.Fprintln(os.Stderr, "native run failed:", err)
		return 2
	}
	fmt.Printf("REPLAY outcome=%s (recorded expectation %s)\n", res[path].Outcome, rf.Expect)
	if outcomeMatches(rf.Expect, res[path].Outcome) {
		fmt.Printf("VIOLATION property=%s replay=%s\n", rf.Property, path)
		return 1
	}
	return 0
}
