package main

import (
	"crypto/sha256"
	"encoding/json"
	"fmt"
	"os"
	"path/filepath"
	"sort"
	"strings"

	"gosx/sym"
)

type harnessEv struct {
	Harness        string           `json:"harness"`
	Bounds         string           `json:"bounds"`
	Paths          int64            `json:"feasible_paths"`
	PathsByOutcome map[string]int64 `json:"paths_by_outcome"`
	Decisions      int64            `json:"decisions"`
	MaxFanout      int              `json:"max_fanout"`
	Obligations    int64            `json:"obligations_sent_to_solver"`
	Unsat          int64            `json:"obligations_unsat"`
	Sat            int64            `json:"obligations_sat"`
	Folded         int64            `json:"obligations_closed_by_constant_folding"`
	BranchQueries  int64            `json:"branch_feasibility_queries"`
	SolverQueries  int64            `json:"solver_queries"`
	SolverSeconds  float64          `json:"solver_seconds"`
	Steps          int64            `json:"ssa_instructions_executed"`
	Reach          map[string]int64 `json:"reach_labels"`
	Params         map[string]int64 `json:"params,omitempty"`
}

type evidence struct {
	ID              string
	Tier            string
	Seed            int64
	Spec            *PropSpec
	Harnesses       []harnessEv
	Funcs           map[string]bool
	Stubs           map[string]bool
	Assumed         map[string]bool
	Samples         []sym.Sample
	TracesValidated int
	Replays         int
	Violations      int
	KnownFindings   int
	Problems        int
	Wall            float64
	Monitor         map[string]interface{}
	RaceCandidates  int
}

func newEvidence(id, tier string, seed int64, spec *PropSpec) *evidence {
	return &evidence{ID: id, Tier: tier, Seed: seed, Spec: spec, Funcs: map[string]bool{}, Stubs: map[string]bool{}, Assumed: map[string]bool{}}
}

func (ev *evidence) addHarness(h HarnessSpec, e *sym.Engine, cfg sym.Config) {
	s := e.Stats
	ev.Harnesses = append(ev.Harnesses, harnessEv{
		Harness: e.Harness, Bounds: h.Bounds, Paths: s.Paths, PathsByOutcome: s.PathsByOutcome, Decisions: s.Decisions, MaxFanout: s.MaxFanout,
		Obligations: s.Obligations, Unsat: s.ObligUnsat, Sat: s.ObligSat, Folded: s.ObligFolded, BranchQueries: s.BranchQueries,
		SolverQueries: s.SolverQueries, SolverSeconds: s.SolverTime.Seconds(), Steps: s.Steps, Reach: e.Reach, Params: cfg.Params,
	})
	for f := range e.Funcs {
		ev.Funcs[f] = true
	}
	for f := range e.Stubs {
		ev.Stubs[f] = true
	}
	for f := range e.Assumed {
		ev.Assumed[f] = true
	}
	for _, sm := range e.Samples {
		if len(ev.Samples) < 10 {
			ev.Samples = append(ev.Samples, sm)
		}
	}
}

func sortedKeys(m map[string]bool) []string {
	var out []string
	for k := range m {
		out = append(out, k)
	}
	sort.Strings(out)
	return out
}

// repoFileHashes hashes the /repo source files of the packages whose functions
// were executed, showing that the encoding came from the current tree.
func repoFileHashes(funcs []string) map[string]string {
	pkgs := map[string]bool{}
	for _, f := range funcs {
		i := strings.Index(f, modulePath+"/")
		if i < 0 {
			continue
		}
		rest := f[i+len(modulePath)+1:]
		// rest like "pkg/entities.NewSet" or "pkg/entities.set).AddRecord"
		j := strings.IndexAny(rest, ".)")
		if j < 0 {
			continue
		}
		pkgs[rest[:j]] = true
	}
	out := map[string]string{}
	for p := range pkgs {
		files, _ := filepath.Glob(filepath.Join(repoDir, p, "*.go"))
		h := sha256.New()
		for _, f := range files {
			if strings.HasSuffix(f, "_test.go") {
				continue
			}
			b, err := os.ReadFile(f)
			if err == nil {
				h.Write([]byte(f))
				h.Write(b)
			}
		}
		out[p] = fmt.Sprintf("%x", h.Sum(nil))[:16]
	}
	return out
}

func (ev *evidence) write() error {
	var states, transitions, obligations, discharged, queries int64
	var solverS float64
	var bounds []string
	for _, h := range ev.Harnesses {
		states += h.Paths
		transitions += h.Decisions
		obligations += h.Obligations + h.Folded
		discharged += h.Unsat + h.Folded
		queries += h.SolverQueries
		solverS += h.SolverSeconds
		if h.Bounds != "" {
			bounds = append(bounds, h.Harness+": "+h.Bounds)
		}
	}
	if transitions == 0 {
		transitions = states
	}
	funcs := sortedKeys(ev.Funcs)
	samples := []interface{}{}
	for _, s := range ev.Samples {
		samples = append(samples, s)
	}
	if len(samples) == 0 {
		samples = append(samples, "no feasible path produced a sample")
	}
	cov := map[string]interface{}{
		"states":                        states,
		"transitions":                   transitions,
		"traces_validated_against_impl": ev.TracesValidated,
		"samples":                       samples,
		"obligations":                   obligations,
		"discharged":                    discharged,
		"solver_queries":                queries,
		"solver_seconds":                solverS,
		"solvers":                       "z3 4.8.12 (one `z3 -in` per worker, push/pop); thorough tier re-discharges every obligation on cvc5 1.0 --incremental",
		"functions_encoded":             funcs,
		"functions_encoded_count":       len(funcs),
		"repo_package_source_hashes":    repoFileHashes(funcs),
		"bounds":                        bounds,
		"harnesses":                     ev.Harnesses,
		"stubs":                         sortedKeys(ev.Stubs),
		"native_replays":                ev.Replays,
		"known_findings_reported":       ev.KnownFindings,
		"inconclusive_items":            ev.Problems,
		"exhaustive":                    ev.Problems == 0,
		"rule":                          "states = feasible paths of the symbolic execution (each a distinct decision sequence: solver-checked branch directions, exhaustive structural splits, solver-enumerated size/index values); transitions = decisions taken; every sx.Assert on every path is an SMT obligation over all values of the symbolic inputs",
		"evaluations":                   states,
		"distinct_nontrivial":           states,
	}
	if ev.Monitor != nil {
		cov["lock_discipline_monitor"] = ev.Monitor
		cov["race_candidates"] = ev.RaceCandidates
	}
	if ev.Spec.Explanation != "" {
		cov["explanation"] = ev.Spec.Explanation
	}
	assumptions := append([]string{}, ev.Spec.Assumptions...)
	assumptions = append(assumptions, sortedKeys(ev.Assumed)...)
	for _, s := range sortedKeys(ev.Stubs) {
		assumptions = append(assumptions, "stub: "+s)
	}
	doc := map[string]interface{}{
		"property_id": ev.ID,
		"tier":        ev.Tier,
		"seed":        ev.Seed,
		"level":       ev.Spec.Level,
		"coverage":    cov,
		"assumptions": assumptions,
		"wall_s":      ev.Wall,
		"violations":  ev.Violations,
	}
	b, err := json.MarshalIndent(doc, "", " ")
	if err != nil {
		return err
	}
	os.MkdirAll("/verif/evidence", 0o755)
	return os.WriteFile(filepath.Join("/verif/evidence", ev.ID+".json"), b, 0o644)
}
