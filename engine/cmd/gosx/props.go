package main

import (
	"os"
	"path/filepath"

	"gosx/sym"
)

func findProp(id string) *PropSpec {
	for i := range props {
		if props[i].ID == id {
			return &props[i]
		}
	}
	return nil
}

var codecAssumptions = []string{
	"bounded verdict: holds for every value of the symbolic inputs on every feasible path inside the stated structural bounds; nothing is claimed outside them",
	"Go standard library code in reach (bytes.Buffer, encoding/binary, io, container/heap, net.IP.To4/To16) is executed from its SSA, not modelled; its correctness relative to the compiler is trusted",
	"go/ssa (x/tools v0.29.0) is trusted to represent the program; the interpreter is validated per run against the natively compiled harness on concrete vectors",
}

var props = []PropSpec{
	{
		ID: "C00", Pkg: "./c00", ReplayPkg: "./cmd/rc00", Level: "model_checking",
		Harnesses: []HarnessSpec{
			{Func: "Check_Arith", Reach: []string{"big", "small"}},
			{Func: "Check_StdModels", Reach: []string{"models"}},
			{Func: "Check_UTF8", Reach: []string{"multi-byte", "ascii-or-not"}},
		},
	},
	{
		ID: "C15", Pkg: "./c15", ReplayPkg: "./cmd/rc15", Level: "model_checking",
		Assumptions: codecAssumptions,
		Harnesses: []HarnessSpec{
			{Func: "Check_Codec", Reach: []string{"decoded", "collector-decoded", "big-field"},
				Bounds: "22 element kinds (every supported data type; octetArray fixed+variable; IPv4 as 4- and 16-byte net.IP; reverse and Antrea enterprise elements); every value bit symbolic; string/octet lengths quick {0..40, 250..260, 65530..65535}, thorough {0..1100, 65500..65535}; element between a symbolic u16 and u32 sentinel"},
			{Func: "Check_TemplateValue", Reach: []string{"built"}, Bounds: "all element kinds, nil value"},
			{Func: "Check_IncrementalRecord", Reach: []string{"incremental"}, Bounds: "records of 1..3 elements from 5 kinds added one by one through Record.AddInfoElement with GetBuffer read after any subset of the additions"},
		},
	},
	{
		ID: "C02", Pkg: "./c02", ReplayPkg: "./cmd/rc02", Level: "model_checking",
		Assumptions: append([]string{"the reference encoder (harness/ref, written from RFC 7011, no code shared with go-ipfix) is the independent judge: byte equality with its output for the same template and values means any independent decoder sees exactly that template and those values", "transport is a recording net.Conn; tcp and udp exporters differ only in background goroutines, which are not started (C14)"}, codecAssumptions...),
		Harnesses: []HarnessSpec{
			{Func: "Check_WellFormed", Reach: []string{"template-sent", "data-sent"},
				Bounds: "templates of 1..2 (quick) / 1..3 (thorough) elements over 22 kinds (IANA, reverse 29305, Antrea 56506, user enterprise 7), all ordered combinations; 1..2 / 1..3 records; variable-length values of {0,255} / {0,1,254,255,256} bytes; every value bit, template id (>=256), observation domain and sequence state symbolic"},
			{Func: "Check_LargeMessage", Reach: []string{"sent", "not-sent"}, Bounds: "every message size 65510..65545 (one variable-length octet array of symbolic content)"},
			{Func: "Check_RegistrySweep", Reach: []string{"swept", "absent", "unsupported-type"},
				Bounds: "every element id 0..520 of enterprises {0, 29305, 56506, 7} as a one-field template, symbolic value, variable lengths {0,3,255}"},
		},
	},
	{
		ID: "C08", Pkg: "./c08", ReplayPkg: "./cmd/rc08", Level: "model_checking",
		Assumptions: append([]string{"inductive step: the counter pre-state is an arbitrary 32-bit value installed with the VerifSetSeq hook, so sessions of any length (including across the 2^32 wrap) reduce to the steps explored", "time.Now is a symbolic non-decreasing wall clock; the export time must lie between a reading taken before and one taken after SendSet", "failed sends are outside the statement (as the property says)"}, codecAssumptions...),
		Harnesses: []HarnessSpec{
			{Func: "Check_SeqStepFixedClock", Reach: []string{"data", "template", "refresh"}, Vectors: 2,
				Bounds: "the same steps with a concrete clock standing 600 ms into a second (rounding vs truncation of the export time)"},
			{Func: "Check_ConfiguredDomain", NoNative: true, Reach: []string{"configured-domain"},
				Bounds: "the real InitExportingProcess over tcp and udp with net.Dial returning an in-memory connection (background goroutines started, their tickers never fire); any 32-bit configured observation domain; one template and one data message of 1..2 records"},
			{Func: "Check_SeqStep", Reach: []string{"data", "template", "near-wrap", "empty-set", "refresh", "partial-write-refused"}, Tune: func(c *sym.Config, th bool) { c.ClockMode = "wall" },
				Bounds: "1..2 (quick) / 1..3 (thorough) successive sends after a template, each a template set (with one or zero records) or a data set with 0..3 records; counter, observation domain, values and clock symbolic; on each send the connection may accept 5 bytes fewer than offered without an error (the send is then a failed attempt, or - if it reports success - its count and bytes are checked)"},
		},
	},
	{
		ID: "C09", Pkg: "./c09", ReplayPkg: "./cmd/rc09", Level: "model_checking",
		Assumptions: append([]string{"refusal = error returned and zero bytes handed to net.Conn.Write", "a 16-byte v4-mapped address in an IPv4 element and a 4-byte address in an IPv6 element are treated as well-typed (net.IP semantics)"}, codecAssumptions...),
		Harnesses: []HarnessSpec{
			{Func: "Check_UnknownTemplate", Reach: []string{"transmitted", "refused"}, Bounds: "0..2 templates sent with symbolic ids, data with symbolic id, 1..2 records"},
			{Func: "Check_FieldCount", Reach: []string{"accepted", "refused"}, Bounds: "template of 0..3 fields, record of 0..3 fields, 1..2 records with the mismatching one at any position"},
			{Func: "Check_SizeLimit", Reach: []string{"fits", "oversized"}, Bounds: "every message size 65519..65540 (string field of symbolic content)"},
			{Func: "Check_SizeLimitSymbolic", Reach: []string{"fits", "oversized"}, Bounds: "set length symbolic in [65400,65600]"},
			{Func: "Check_UndefinedSetType", Reach: []string{"refused"}, Bounds: "reset set, with and without prior PrepareSet"},
			{Func: "Check_Fidelity", Reach: []string{"refused-at-send", "transmitted-faithfully", "retried"}, Bounds: "IPv4 element with address of 0,3,4,5,16 bytes; IPv6 element with 0,3,4,15,16,17 bytes; MAC of 0..8 bytes; fixed 5-byte octet array of 0..7 bytes; all bytes symbolic; x the application {just sends, reads the record buffer and set length first, retries the same set once after a refusal}"},
		},
	},
	{
		ID: "C03", Pkg: "./c03", ReplayPkg: "./cmd/rc03", Level: "model_checking",
		Assumptions: append([]string{
			"totality is an engine outcome: any uncaught Go panic, any path exceeding the instruction budget (2M SSA instructions for a packet of at most 44 bytes) or the allocation budget is reported as a violation (panic / hang)",
			"exactness oracle: the reference data-set parser of DESIGN.md appendix C (records while at least a minimum record fits; leftover shorter than the minimum record is padding; a record cut mid-field is an error; a template whose records are empty may only yield no records)",
			"the library decodes one set spanning the rest of the packet and ignores the message/set length fields; the oracle does the same (the statement's 'received set body' is the bytes after the set header)",
			"template-set packets: each field specifier's (element id, enterprise) pair is assumed to lie in a pool of 11 pairs (known IANA/Antrea/reverse/user elements, unknown IANA id, unknown enterprise, element of unsupported type); lengths, field count, enterprise bit and truncation point are unconstrained",
		}, codecAssumptions...),
		Harnesses: []HarnessSpec{
			{Func: "Check_DataPacket", Reach: []string{"error", "message", "records", "two-records", "refused-for-cause"},
				Tune: func(c *sym.Config, th bool) {
					c.HangIsViolation = true
					c.InstrBudget = 2_000_000
					c.AllocLimit = 200_000
				},
				Bounds: "every byte of the packet symbolic (header, set header, body); packet length 0..20+B with B = 12 (quick) / 14 (thorough; 12 for multi-field layouts) for fixed-width templates and 6 / 7 for templates with a variable-length field; templates: zero fields, each of 14 single-field shapes (incl. unknown elements of length 0, 3, variable), 11 (quick) / 36 pairs + 27 triples (thorough) multi-field layouts; x 3 decoding modes"},
			{Func: "Check_TemplatePacket", Reach: []string{"error", "message", "zero-fields", "one-field", "several-fields", "invalidated-or-other-key"},
				Tune: func(c *sym.Config, th bool) {
					c.HangIsViolation = true
					c.InstrBudget = 2_000_000
					c.LazyMake = true
					c.AllocLimit = 200_000
				},
				Bounds: "set id 2, version 10 assumed; every other byte symbolic; packet length 16..20+B, B = 12 (quick) / 20 (thorough); x 3 decoding modes x {no older template, older template for (7,300)}; 16-bit field count kept symbolic through a lazily sized slice"},
		},
	},
	{
		ID: "C01", Pkg: "./c01", ReplayPkg: "./cmd/rc01", Level: "model_checking",
		Assumptions: append([]string{
			"ASSUMED, not decided: the transport delivers the written bytes unchanged (UDP/DTLS: one Write = one datagram; TCP/TLS: a byte stream, segmentation is C11). Kernel sockets, TLS/DTLS record layers and the IPv4/IPv6 listener dimension cannot be encoded and are not part of the verdict",
			"what is decided is the codec composition: bytes written by the real ExportingProcess.SendSet, presented to the real CollectingProcess.decodePacket, and (Check_MaxMessage) to the real TCP connection handler as an in-memory byte stream",
		}, codecAssumptions...),
		Harnesses: []HarnessSpec{
			{Func: "Check_EndToEnd", Reach: []string{"delivered"},
				Bounds: "templates of 1..2 fields over 22 kinds (quick); thorough: 1..2 over 22 kinds and triples over a pool of 10; 1..2 / 1..3 records; variable lengths {0,255} / {0,1,254,255,256}; all values, template id, observation domain symbolic; exporter address 1.2.3.4:5 and [::1]:5"},
			{Func: "Check_MaxMessage", Reach: []string{"delivered", "max-size", "over-tcp"},
				Bounds: "single string / octet-array field of 254,255,256,4073,4074,5000,65000,65511,65512 bytes (65512 makes the message exactly 65535 bytes; 4074 makes it cross the 4096-byte default buffer of bufio), symbolic content; presented to decodePacket as datagrams, or as one TCP stream (template, data, template) to the real handleTCPClient on an in-memory connection"},
		},
	},
	{
		ID: "C04", Pkg: "./c04", ReplayPkg: "./cmd/rc04", Level: "model_checking",
		Assumptions: append([]string{
			"oracle: association list keyed by the symbolic (domain, id) pairs: last valid template wins, a bad template whose id was read removes the entry",
			"UDP flavour runs with a clock on which no time passes (template lifetime is C10)",
		}, codecAssumptions...),
		Harnesses: []HarnessSpec{
			{Func: "Check_History", Reach: []string{"bad-template", "data-rejected", "data-decoded-A", "data-decoded-B", "data-decoded-C", "data-decoded-S", "final", "zero-field-template"},
				Tune: func(c *sym.Config, th bool) {
					// decoding a bounded packet terminates quickly: a path that exhausts this budget is a decoder that hangs
					c.HangIsViolation = true
					c.InstrBudget = 3_000_000
				},
				Bounds: "histories of k = 3 messages (quick and thorough) and of k = 4 messages over a reduced menu (thorough: templates A and B, one kind of bad template, data), each one of {template A, template B (same record size, different shape), bad template (cut short after id / unknown element in strict mode), data}; the (observation domain, template id) of every message is symbolic, so all aliasing patterns are explored by the solver; tcp and udp flavours; at most once per history a template record with field count 0 (for the key, or with record id 2)"},
			{Func: "Check_HistoryAfterUse", Reach: []string{"data-decoded-A", "data-decoded-B", "data-rejected", "final"},
				Tune:   func(c *sym.Config, th bool) { c.HangIsViolation = true; c.InstrBudget = 3_000_000 },
				Bounds: "histories that start with a template and a data set (keys symbolic: same key or not), followed by every sequence of 2 further messages (quick and thorough) and of 3 further messages over the reduced menu (thorough)"},
		},
	},
	{
		ID: "C16", Pkg: "./c16", ReplayPkg: "./cmd/rc16", Level: "model_checking",
		Assumptions: append([]string{"well-formed operation order only (a PrepareSet precedes adds), as the property's quantifier states; decoding-mode sets are outside (the property is about builders)"}, codecAssumptions...),
		Harnesses: []HarnessSpec{
			{Func: "Check_Sequences", Reach: []string{"reset", "done", "prepared-again"},
				Bounds: "prefix {none, template set + add, data set + add} then ResetSet, then PrepareSet(type, symbolic id) and 1..2 adds through any of the three add paths (extra elements {0,2} quick / 0..3 thorough) with element lists from a menu of 6 (0..3 elements; fixed 1/2/4/8, MAC, IPv4, string, variable octets; IANA, reverse, Antrea), UpdateLenInHeader at any point; every operation mirrored on a fresh NewSet; string lengths {0,255} quick / {0,1,254,255} thorough"},
			{Func: "Check_OddAdds", Reach: []string{"refused-add", "ill-typed-add", "odd-done"},
				Bounds: "new or reused set x template or data x an add that goes wrong (template set: record with a valued element first or second, through the two copying paths; data set: record with a 5-byte MAC address or a 16-byte value in an IPv4 element) x one regular add through each of the 3 paths; refused adds must leave the set unchanged, accepted ones keep the length bookkeeping consistent"},
			{Func: "Check_AddPaths", Reach: []string{"compared"},
				Bounds: "1..2 records; first record 0..2 (quick) / 0..3 (thorough) elements, all combinations over a pool of 10 kinds; extra capacity {0,1,3}; template and data sets; the caller keeps its element slices untouched or overwrites them right after the two copying adds"},
		},
	},
	{
		ID: "C17", Pkg: "./c17", ReplayPkg: "./cmd/rc17", Level: "model_checking",
		Assumptions: append([]string{"wire bytes are produced by the reference encoder from symbolic values; the same bytes are presented to three collectors (strict, keep, drop) and, reduced to the known fields, to a fourth"}, codecAssumptions...),
		Harnesses: []HarnessSpec{
			{Func: "Check_Modes", Reach: []string{"strict-rejects", "all-known", "keep-checked", "drop-checked", "reduced-checked", "older-template", "older-template-same-ids-other-lengths"},
				Bounds: "templates of 1..2 (quick) / 1..3 (thorough) positions, each a known element (6 kinds) or an unknown one (IANA id 999, enterprise 9999, Antrea id 9999) of fixed length 1,2,5 or variable length (payload 0,3,255 bytes); 1 / 1..2 records (1 for three positions); all values symbolic; optionally an older template for the same id installed first in every mode: a known-only one, or (lenient modes) one with the same specifiers whose unknown elements were announced with other lengths"},
			{Func: "Check_KeepOverTCP", Reach: []string{"tcp-checked"}, Bounds: "keep and drop mode through handleTCPClient: template + two data messages with a known and an unknown (fixed 4 / variable) field on one connection; symbolic values"},
		},
	},
	{
		ID: "C05", Pkg: "./c05", ReplayPkg: "./cmd/rc05", Level: "model_checking",
		Assumptions: append([]string{
			"exporter contract of the statement is ASSUMED for the incoming record: end > start, end strictly above that node's previous end, totals not below that node's previous totals, delta sums and 8 x growth representable in 64 bits",
			"representation invariant assumed for the arbitrary pre-state: the common end time is the latest of the node end times; a node that has not reported has zero fields; a flow that needs no correlation has identical source- and destination-node fields",
			"where the statement is silent the oracle accepts both outcomes: equal end times (common fields), a reporter whose total is below the stored common total",
			"5-tuples are concrete (the flow key is only compared for equality; net.IP.String of symbolic bytes is formatting); httpVals merging (JSON, reflection) is not configured",
		}, codecAssumptions...),
		Harnesses: []HarnessSpec{
			{Func: "Check_Step", Reach: []string{"stepped", "first-record-of-node"}, Tune: func(c *sym.Config, th bool) { c.ClockMode = "frozen" },
				Bounds: "inductive step: arbitrary aggregated flow (8 stats x {common, source, destination}, 6 throughput fields, 3 end times, all symbolic) + one symbolic incoming record from the source node, the destination node (with either node having created the flow) or a single uncorrelated stream"},
			{Func: "Check_Reset", Reach: []string{"reset"}, Tune: func(c *sym.Config, th bool) { c.ClockMode = "frozen" }, Bounds: "reset from an arbitrary symbolic state, 3 keys (IPv4 and IPv6)"},
			{Func: "Check_History", Reach: []string{"non-interference", "several-flows"}, Tune: func(c *sym.Config, th bool) { c.ClockMode = "frozen" },
				Bounds: "2 (quick) / 3 (thorough) records with symbolic counters over 3 five-tuples (IPv4, IPv6), a reset optionally before each; compared with a second process fed only the watched flow's records"},
		},
	},
	{
		ID: "C06", Pkg: "./c06", ReplayPkg: "./cmd/rc06", Level: "model_checking",
		Assumptions: append([]string{
			"virtual time: the clock stands still at T0 (engine: frozen clock) and deadlines are placed at T0 + k*2^30 ns with k symbolic in [-400,400] - equivalent to letting arbitrary time pass, because the code only uses Now/Add/Sub/Before/After; native replays run against the real clock, whose drift during a run is far below 2^30 ns",
			"a deadline EXACTLY equal to the scan instant (k = 0) is excluded: it cannot be staged against the real clock and the statement leaves that instant open",
			"inductive step: the pre-state is produced by the real operations (create, Update + heap.Fix via the VerifSetDeadlines hook) with symbolic deadlines, readiness and retry counts, so every valid (map, heap) arrangement of up to N flows arises",
		}, codecAssumptions...),
		Harnesses: []HarnessSpec{
			{Func: "Check_RejectedRecord", Reach: []string{"rejected", "recovered"}, Tune: func(c *sym.Config, th bool) { c.ClockMode = "frozen" },
				Bounds: "statistics aggregation configured; a first record without flowStartSeconds (rejected), then a well-formed record of the same key, then a scan after the deadlines"},
			{Func: "Check_RecordOnWaitingFlow", Reach: []string{"same-node-record", "correlating-record"}, Tune: func(c *sym.Config, th bool) { c.ClockMode = "frozen" },
				Bounds: "one inter-node flow waiting for correlation, created by either node, arbitrary deadlines (T0 + k*2^30 ns, |k| <= 400), then one more record from the same or from the other node"},
			{Func: "Check_Step", Reach: []string{"record", "scan", "callback-failed", "inactive-expiry-removes", "active-expiry-keeps", "not-ready", "expiry", "expiry-empty"},
				Tune: func(c *sym.Config, th bool) {
					c.ClockMode = "frozen"
					// thorough: three flows (1 M obligations over six symbolic deadlines); the
					// re-discharge of every obligation on the second solver does not fit the
					// time budget here (> 25 min) and is left to the quick-tier bound
					c.SecondSolver = ""
				},
				Bounds: "0..2 (quick) / 0..3 (thorough) flows with symbolic active/inactive deadlines, readiness and retry count (the third flow of the thorough tier: symbolic deadlines, ready, no retry used, callback succeeds; thorough without the second solver); flows of several keys are created by one multi-record message; the second key's flow is an inter-node flow denied at egress; one step: record for an existing or new key, expiry scan with the callback failing on any subset of keys, or GetExpiryFromExpirePriorityQueue"},
		},
	},
	{
		ID: "C07", Pkg: "./c07", ReplayPkg: "./cmd/rc07", Level: "model_checking",
		Assumptions: append([]string{
			"all records of one flow carry the same flow type and rule actions (the statement is per flow); MaxRetries configured to 1",
			"the merge combines the record that created the flow with the first record of the other node; later records of an already correlated flow do not change correlate fields",
			"string correlate fields and the cluster IP are split over {empty/zero, non-empty} with concrete contents (net.IP.String is formatting); numeric correlate fields, flow type and rule actions are symbolic over their full range",
			"virtual time as in C06 (frozen clock, deadlines shifted by the VerifShiftDeadlines hook)",
		}, codecAssumptions...),
		Harnesses: []HarnessSpec{
			{Func: "Check_History", Reach: []string{"correlation-required", "no-correlation", "withheld", "merged", "exported", "retried", "dropped-after-retries"},
				Tune:   func(c *sym.Config, th bool) { c.ClockMode = "frozen" },
				Bounds: "histories of 3 (quick) / 4 (thorough) events from {record from source node, record from destination node, expiry scan after all deadlines} on one flow; flow type, egress and ingress rule action symbolic over all 256 values each"},
			{Func: "Check_HistoryAfterRetry", Reach: []string{"correlation-required", "retried", "dropped-after-retries", "merged"},
				Tune:   func(c *sym.Config, th bool) { c.ClockMode = "frozen" },
				Bounds: "histories that start with a record of one node and an expiry scan, followed by all sequences of 2 (quick) / 3 (thorough) further events (total depth 4 / 5)"},
		},
	},
	{
		ID: "C10", Pkg: "./c10", ReplayPkg: "./cmd/rc10", Level: "model_checking",
		Assumptions: append([]string{
			"the clock is the harness's implementation of the collector's clock interface (hook VerifClock), interpreted like any other code; it models the documented time.AfterFunc semantics explicitly: armed / fired-with-callback-pending / idle, Stop and Reset return values, a pending callback survives Reset; Now() inside a callback returns any instant between the firing and the current time (over-approximates the unlocked clock read at the top of the callback)",
			"callbacks and message handling are atomic with respect to each other (each holds the collector mutex for its whole body); true parallelism is not explored",
			"time is a 64-bit symbolic offset; every 'advance' is an arbitrary non-negative duration up to 100 s, TTL = 30 s",
		}, codecAssumptions...),
		Harnesses: []HarnessSpec{
			{Func: "Check_Schedule", Reach: []string{"refresh", "replacement", "data-accepted", "data-rejected", "fired", "expired", "used-after-ttl-before-timer-ran", "callback-found-refreshed-template", "done"},
				Tune:   func(c *sym.Config, th bool) { c.ClockMode = "frozen" },
				Bounds: "all schedules of depth 5 on 2 keys (two template ids of one observation domain; quick and thorough) and of depth 7 on 1 key (thorough) over {template/refresh, bad template, data, advance by symbolic d, fire a due armed timer, run a pending callback}; all timing relations are the solver's"},
			{Func: "Check_ScheduleAfterLifetime", Reach: []string{"refresh", "expired", "fired", "callback-found-refreshed-template", "done"},
				Tune:   func(c *sym.Config, th bool) { c.ClockMode = "frozen" },
				Bounds: "schedules that start with a template for the first key and an arbitrary advance, followed by all sequences of 4 (quick) / 5 (thorough) further events (total depth 6 / 7)"},
			{Func: "Check_ScheduleDTLS", Reach: []string{"expired", "fired", "done"},
				Tune:   func(c *sym.Config, th bool) { c.ClockMode = "frozen" },
				Bounds: "the collector configured for UDP with DTLS (IsEncrypted): schedules on one key that start with a template and an arbitrary advance, then all sequences of 3 (quick) / 4 (thorough) further events"},
		},
	},
	{
		ID: "C18", Pkg: "./c18", ReplayPkg: "./cmd/rc18", Level: "other",
		Explanation: "CONFIGURATION CONTRACT ONLY. TLS/DTLS handshakes, X.509 chain building, validity periods, SAN matching and protocol versions are crypto/tls, crypto/x509 and pion/dtls; none of that can be encoded for an SMT solver and the certificate matrix of the property's quantifier (expired, wrong SAN, other CA, peer max version ...) is NOT explored. What go-ipfix itself contributes to the property - which dial/listen function it calls and with which configuration - is decided by symbolic execution of the real InitExportingProcess / createClientConfig / Start / startTCPServer / createServerConfig / startUDPServer with the dial, listen and PEM-parsing functions replaced by recorders: with TLS settings present only tls.Dial (tcp) / dtls.Dial (udp) is called, never net.Dial; InsecureSkipVerify false; RootCAs exactly the pool built from the configured CA (never nil = system roots); MinVersion >= TLS 1.2; ServerName passed through for every value (symbolic string); no custom verification callbacks; a CA or key pair that does not parse is an error, not a fallback; the encrypted collector calls only tls.Listen / dtls.Listen, and with a client CA requires and verifies client certificates against exactly that pool; without security settings no TLS function is called. Counterexamples are replayed in the interpreter on the recorded choices (a native replay would need the real network environment).",
		Assumptions: []string{
			"trusted base: given such a configuration, the Go standard library and pion/dtls enforce chain, validity, name and version",
			"tls.Dial, dtls.Dial, net.Dial, tls.Listen, dtls.Listen, net.Listen, net.ListenUDP, net.ResolveUDPAddr, x509 CertPool.AppendCertsFromPEM and tls.X509KeyPair are recorders; whether PEM data / a key pair parses is a nondeterministic boolean (both outcomes explored)",
			"the ticker goroutines started by InitExportingProcess are parked (time.NewTicker never fires)",
			"the statement asks client-certificate verification of the TLS collector only; the DTLS collector's configuration is checked for certificates and absence of PSK",
		},
		Harnesses: []HarnessSpec{
			{Func: "Check_Exporter", NoNative: true, Reach: []string{"plaintext", "configuration-error", "tls", "dtls", "ca-rotated", "dtls-name-unset"},
				Bounds: "protocol {tcp, udp} x TLS settings {absent, present} x client certificate {absent, present} x CA parses {yes, no} x key pair parses {yes, no} x ServerName {empty, 6 symbolic bytes}; after a successful encrypted initialisation the CA in the same settings object is replaced and the process initialised a second time"},
			{Func: "Check_Collector", NoNative: true, Reach: []string{"plaintext", "configuration-error", "tls", "tls-client-auth", "dtls"},
				Bounds: "protocol {tcp, udp} x isEncrypted x client CA {absent, present} x PEM / key pair parsing outcomes"},
		},
	},
	{
		ID: "C19", Pkg: "./c19", ReplayPkg: "./cmd/rc19", Level: "other",
		Explanation: "The protobuf runtime (google.golang.org/protobuf: unsafe and reflection based) cannot be interpreted and is stubbed: proto.Marshal returns ARBITRARY bytes of symbolic content (length split over a short menu), proto.Unmarshal records its input, generated ProtoReflect methods hand the generated struct through. Decided by symbolic execution of the real PublishIPFIXMessages, SendFlowMessage, both shipped convertors (flowtype1.go, flowtype2.go) and consumer.DecodeAndPrintMsg against a recording sarama.AsyncProducer: exactly one Kafka message per data record, in record order, none for template messages, on the configured topic; the struct handed to Marshal carries the record's values (symbolic) and the message's export time, sequence number, observation domain and exporter address in the schema's fields; the payload is a 4-byte big-endian length followed by exactly the marshalled bytes; the consumer hands exactly those bytes to Unmarshal. NOT covered: the protobuf wire encoding/decoding itself (trusted). Counterexamples are replayed in the interpreter (the stubbed marshaller has no native counterpart).",
		Assumptions: []string{
			"protobuf runtime trusted and stubbed (Marshal = arbitrary bytes, Unmarshal = recorder)",
			"IP addresses and the exporter address are concrete (their rendering is net.IP.String formatting); all numeric fields and the pod name are symbolic",
		},
		Harnesses: []HarnessSpec{
			{Func: "Check_Publish", NoNative: true, Reach: []string{"published", "several-records", "nothing-published"},
				Bounds: "streams of 1..2 (quick) / 1..3 (thorough) IPFIX messages, each a template or a data message with 0..2 records, IPv4 or IPv6, two exporter addresses, both schemas (the third message of a thorough stream: 0..1 records, IPv4, one address); the second message lists its elements in another order under the same template id; the second record of a message holds its IPv4 addresses in the 16-byte form; marshalled length {0,7} / {0,1,2,7,300}"},
		},
	},
	{
		ID: "C11", Pkg: "./c11", ReplayPkg: "./cmd/rc11", Level: "model_checking",
		Assumptions: append([]string{
			"handleTCPClient runs its reader goroutine under the engine's cooperative, deterministic run-to-block scheduler; schedules are NOT enumerated (the reader goroutine and the select in the handler synchronise only through doneCh and the message channel)",
			"the connection is an in-memory net.Conn that returns the stream in segments: every Read returns the bytes up to the next cut point (1..len(p) bytes), then io.EOF",
			"delays between segments: the code has no timeouts on the read path; if a read deadline has been set on the connection, a Read at a segment boundary may fail once with a net.Error whose Timeout() is true before the segment arrives",
		}, codecAssumptions...),
		Harnesses: []HarnessSpec{
			{Func: "Check_Segmentation", Reach: []string{"all-delivered", "closed-after-undecodable-message", "live-other-connection"},
				Tune: func(c *sym.Config, th bool) {
					// a reader that spins on a message it cannot consume never returns: a hang is the violation
					c.HangIsViolation = true
					c.InstrBudget = 5_000_000
				},
				Bounds: "stream = template message + 2 data messages with symbolic values (+ optionally one undecodable message - bad version, length field shorter than the content, length field 0 or 15 i.e. below the header size, unknown template - at any of the 4 positions); every single cut point (quick), every pair of cut points (thorough) over the whole stream; a second connection afterwards; if the code sets a read deadline, the segment after a cut may arrive only after a read timeout (environment choice)"},
			{Func: "Check_LargeMessage", Reach: []string{"large-delivered"},
				Bounds: "stream = template, a data message with a string of 4076/4077/4100 (thorough also 8200/65000) bytes - i.e. just below, at and above the 4096-byte bufio default - then 2 small data messages; 9 segmentations around the buffer boundary and the message ends; symbolic values and string ends"},
		},
	},
	{
		ID: "C20", Pkg: "github.com/vmware/go-ipfix/cmd/collector", Level: "other", NoNativeBuild: true,
		Overlay: func() (map[string][]byte, error) {
			b, err := os.ReadFile("/verif/overlays/c20/zz_verif_c20.go")
			if err != nil {
				return nil, err
			}
			return map[string][]byte{filepath.Join(repoDir, "cmd/collector/zz_verif_c20.go"): b}, nil
		},
		Explanation: "PARTIAL: rendering excluded, HTTP stack bypassed. cmd/collector is package main and cannot be imported, so the harness file is injected into it with go's overlay mechanism (nothing is added to the repository). Decided by symbolic execution of the real addIPFIXMessage, flowRecordHandler and resetRecordHandler: from a store of EVERY length L (quick: L in {0,1,2,3,4094,4095,4096}; thorough: every L in 0..4096) one or two arrivals keep the store at min(L+k, 4096) entries consisting of the most recent ones in arrival order (the step form covers runs that exceed the cap any number of times); a records query returns the last min(count, L) entries in order in both formats for boundary counts and - with strconv.Atoi stubbed to return a SYMBOLIC integer - for every count on small stores; negative / unparsable counts and unknown formats are refused with 400, other methods with 405, reset empties the store. The rendered entry is produced by the host's fmt for CONCRETE field values only, so 'every field appears by name and value' is checked for one concrete record shape, not for all values. json.Marshal is a recorder (the slice handed to it is checked); handlers are called with a fake ResponseWriter. Counterexamples are replayed in the interpreter.",
		Assumptions: []string{
			"fmt rendering by the host's fmt for concrete operands (reflection and digit loops are not interpreted); json.Marshal, http.Error and http.Header.Set/Del are recorders/plain models",
			"the HTTP server, signal handling and the collecting process wiring of run() are not executed",
		},
		Harnesses: []HarnessSpec{
			{Func: "Check_Arrival", NoNative: true, Reach: []string{"arrived", "full-window"}, Tune: func(c *sym.Config, th bool) { c.InstrBudget = 50_000_000 }, Bounds: "store length L: quick {0,1,2,3,4094,4095,4096}, thorough every L in 0..4096; 1..2 arrivals"},
			{Func: "Check_Query", NoNative: true, Reach: []string{"json", "text", "refused"}, Tune: func(c *sym.Config, th bool) { c.InstrBudget = 50_000_000 }, Bounds: "same L; count in {absent,0,1,2,L-1,L,L+1,5000,-1,abc} x format in {absent,json,text,xml}"},
			{Func: "Check_QuerySymbolic", NoNative: true, Reach: []string{"answered", "refused"}, Bounds: "L in 0..6, count a symbolic 64-bit integer"},
			{Func: "Check_QueryAfterChange", NoNative: true, Reach: []string{"arrival-at-cap", "reset-and-refill", "second-text", "second-json"},
				Bounds: "store of 1, 2 or 4096 entries; query {all json, count=1 json, all text}; then an arrival at the cap or a reset followed by as many arrivals (at most 2); then the same query again"},
			{Func: "Check_Methods", NoNative: true, Reach: []string{"methods", "reset"}, Bounds: "POST/DELETE /records, GET/POST /reset on stores of 0, 3, 4096 entries"},
		},
	},
	{
		ID: "C12", Pkg: "./c12", Level: "other", NoNativeBuild: true,
		Explanation: "PARTIAL and bounded; originally planned as not applicable (DESIGN.md section 6) and claimed only for the slice that became encodable once schedule exploration existed (section 11.4). Decided: TWO clients. (1) The real Start() of the TCP server runs on a listener supplied by the environment stub (net.Listen returns the harness's in-memory listener holding two connections): accept loop, wait-group accounting, per-connection handler and reader goroutines, listener close on Stop. (2) The real Start() of the UDP server runs on a stub socket (net.ListenUDP / ReadFromUDP deliver the registered datagrams of two clients into the caller's buffer, then block until Close): socket read loop with its buffer handling, dispatch, per-client goroutines and queues. (2b) the same with the idle ticker of the first client's handler firing at any point relative to that client's later datagrams (at most once, in order, the other client loses nothing, a new handler serves a client that keeps sending). (3)/(4) the same handlers driven through the hooks VerifServeConn / VerifHandleUDPMessage with more variation (a client that disconnects inside a message header or body; three datagram arrival orders). In all four a consumer goroutine drains the message channel and Stop is called either after all traffic was consumed or while it is in flight. Under EVERY interleaving of the goroutines' synchronisation points (mutex lock/unlock with real blocking semantics, channel send/receive/close/select with rendezvous semantics for unbuffered channels, WaitGroup, the stub socket's read) within the stated preemption budget: each connection's / client's messages are delivered exactly once (a prefix of them when Stop comes first), in the order sent, uncorrupted and never mixed between clients (values are symbolic: an SMT obligation); the connection count / client table returns to zero; Stop returns (a hang is an engine deadlock / budget outcome); the listener / socket and every accepted connection are closed; afterwards no interpreted goroutine of the process remains; no panic (e.g. send on a closed channel, negative WaitGroup counter). NOT covered and not claimed: kernel sockets, TLS/DTLS servers, more than two clients, preemption inside code between synchronisation points (data races there are not detected: the race detector is not involved), Stop racing with the very beginning of Start, timing.",
		Assumptions: []string{"in-memory net.Conn honouring the documented contract (Read returns the stream then io.EOF; after Close, Read errors)", "in-memory net.Listener: Accept returns the queued connections, then blocks until Close and returns an error", "stub UDP socket: ReadFromUDP copies the next datagram into the buffer it is given and returns its length and source; after Close it returns (0, nil, error)", "bounded preemptions; cooperative execution between synchronisation points", "the UDP client's idle ticker fires only where a harness lets its interval pass (Check_UDPIdleTimeout)"},
		Harnesses: []HarnessSpec{
			{Func: "Check_TwoClients", NoNative: true, Reach: []string{"all-delivered", "stopped-during-traffic"},
				Tune: func(c *sym.Config, th bool) {
					c.ExploreSchedules = true
					c.MaxPreemptions = 1
					if th {
						c.MaxPreemptions = 2
					}
					// a handler that never returns makes the harness wait forever: a hang is the violation
					c.HangIsViolation = true
					c.InstrBudget = 3_000_000
				},
				Bounds: "2 TCP connections x (template + 2 data messages, symbolic values) x {Stop after the streams ended, Stop during traffic}; every interleaving with at most 1 (quick) / 2 (thorough) preemptions"},
			{Func: "Check_TwoUDPClients", NoNative: true, Reach: []string{"udp-delivered", "udp-stopped-during-traffic"},
				Tune: func(c *sym.Config, th bool) {
					c.ExploreSchedules = true
					c.MaxPreemptions = 2
				},
				Bounds: "2 UDP clients; without Stop during traffic: (template + 2 data datagrams) each x 3 arrival orders; with Stop during traffic: 4 datagrams; every interleaving with at most 2 preemptions (3 preemptions: 37 min, clean once, not registered)"},
			{Func: "Check_StartTCP", NoNative: true, Reach: []string{"start-tcp-all-delivered", "start-tcp-stopped-during-traffic"},
				Tune: func(c *sym.Config, th bool) {
					c.ExploreSchedules = true
					c.MaxPreemptions = 1
					if th {
						c.MaxPreemptions = 2
					}
					c.HangIsViolation = true
					c.InstrBudget = 3_000_000
				},
				Bounds: "real Start() on an in-memory listener with 2 connections x (template + 2 data messages, symbolic values) x {Stop after the streams ended, Stop once the first connection was accepted}; every interleaving with at most 1 (quick) / 2 (thorough) preemptions"},
			{Func: "Check_UDPIdleTimeout", NoNative: true, Reach: []string{"udp-idle-timeout"},
				Tune: func(c *sym.Config, th bool) {
					c.ExploreSchedules = true
					c.MaxPreemptions = 1
					if th {
						c.MaxPreemptions = 2
					}
					c.HangIsViolation = true
					c.InstrBudget = 3_000_000
				},
				Bounds: "real Start() on a stub UDP socket delivering template + 2 data datagrams of one client and a template of another; the first client's idle ticker fires once (harness-controlled) at any point relative to its later datagrams; every interleaving with at most 1 (quick) / 2 (thorough) preemptions"},
			{Func: "Check_StartUDP", NoNative: true, Reach: []string{"start-udp-all-delivered", "start-udp-stopped-during-traffic"},
				Tune: func(c *sym.Config, th bool) {
					c.ExploreSchedules = true
					c.MaxPreemptions = 1
					if th {
						c.MaxPreemptions = 2
					}
					c.HangIsViolation = true
					c.InstrBudget = 3_000_000
				},
				Bounds: "real Start() on a stub UDP socket delivering 6 datagrams (4 with Stop during traffic) of 2 clients in 2 arrival orders, maxBufferSize 128; every interleaving with at most 1 (quick) / 2 (thorough) preemptions"},
		},
	},
	{
		ID: "C13", Pkg: "./c13", Level: "other", NoNativeBuild: true,
		Explanation: "SUFFICIENT CONDITION plus bounded schedule enumeration for pairs of operations. (a) What an SMT-based symbolic execution can decide about thread safety is the lock discipline the code relies on: every public operation of AggregationProcess (AggregateMsgByFlowKey with one and two records, ForAllExpiredFlowRecordsDo, ForAllRecordsDo, GetRecords with and without key, GetNumFlows, GetExpiryFromExpirePriorityQueue) is executed symbolically from bounded arbitrary states (0..1 flows quick, 0..2 thorough; symbolic records; deadlines passed or not; failing and succeeding callbacks) so that every feasible path, error paths included, is walked; every load, store and map operation on an object reachable from the process at entry is logged with the set of process mutexes held. The lockset rule is then applied across operations (each may run concurrently with every other and with itself): two accesses to one shared location, at least one a write, not both atomic, without a common lock = VIOLATION; also: a mutex still held at return, a mutex re-acquired while held, unlock of an unlocked mutex. With mutual exclusion trusted this gives atomic operations, hence linearizability with the lock acquisition as linearization point, and reduces 'no lost delta, no double export' to the sequential properties C05/C06. (b) Check_Linearizable runs PAIRS of operations in two goroutines under every interleaving of their synchronisation points (the scheduler choice at each mutex lock/unlock is a decision of the path explorer, bounded by a preemption budget) and compares the outcome - the final state, the exports and what a query operation (GetNumFlows, GetRecords, GetExpiryFromExpirePriorityQueue) returned - with both sequential orders - this catches lost updates that are not data races (state captured under one critical section and used in another). NOT covered: more than two concurrent operations, preemption inside code between synchronisation points (covered by the lockset rule instead), the Go memory model, sync.RWMutex and the race detector are trusted; the worker pool enters only through the fact that every worker runs AggregateMsgByFlowKey.",
		Assumptions: []string{"cooperative single-threaded execution; interleavings are not explored", "a breach is reported from the interpreter's access log (both access sites named); no native race-detector run is attempted"},
		Harnesses: []HarnessSpec{
			{Func: "Check_Operations", NoNative: true, Reach: []string{"operation-done"}, Tune: func(c *sym.Config, th bool) { c.ClockMode = "frozen" },
				Bounds: "8 entry points x states of 0..1 (quick) / 0..2 (thorough) flows created by source-node, destination-node or intra-node records x symbolic counters and times x callbacks failing or not and modifying the record (reset of statistics, filled marks) or not x deadlines passed or not"},
			{Func: "Check_Linearizable", NoNative: true, Reach: []string{"compared"},
				Tune: func(c *sym.Config, th bool) {
					c.ClockMode = "frozen"
					c.ExploreSchedules = true
					c.MaxPreemptions = 3
					if th {
						c.MaxPreemptions = 5
					}
				},
				Bounds: "pairs of operations in two goroutines: {ingest source record || ingest destination record, two expiry scans over a due flow whose callback fails the first time it is invoked, ingest || GetNumFlows, ingest || GetRecords, ingest || GetExpiryFromExpirePriorityQueue, ingest || expiry scan after the deadlines} x flow existing before or not; EVERY interleaving of their synchronisation points (mutex lock/unlock, WaitGroup) with at most 3 (quick) / 5 (thorough) preemptions; symbolic counters; result compared with both sequential orders"},
		},
	},
	{
		ID: "C14", Pkg: "./c14", ReplayPkg: "./cmd/rc14", Level: "other",
		Explanation: "PARTIAL. Decided: (1) lockset over the bodies each goroutine of an exporting process runs - application: SendSet (template, data, refusal paths) and NewTemplateID; UDP refresher: sendRefreshedTemplates (with failing and succeeding writes), and the refresh goroutine of the real InitExportingProcess on the path where its write fails and it closes the process; TCP checker: checkConnToCollector followed by closeConnToCollector; anyone, repeatedly: CloseConnToCollector - every access to a field of the process logged with the mutexes held, conflicting accesses from roles that can run concurrently without a common lock and not both atomic = VIOLATION (the harness's fake net.Conn stands for a concurrency-safe socket and is excluded); (2) sequential contracts with symbolic contents: after j template sends one refresh writes exactly j messages, one Write each, byte-identical to the reference encoding of the original templates and never advancing the sequence number; after the peer closed (Read returns io.EOF) the check reports it, the connection is closed exactly once, a later SendSet returns an error and writes nothing; closing twice is a no-op; after close neither SendSet nor a refresh writes a byte; (3) concurrent close from two goroutines under every interleaving of their synchronisation points within a preemption bound; (4) the real InitExportingProcess with its background goroutine (net.Dial returns an in-memory connection; the ticker ticks when the harness says the interval has passed): a tick concurrent with a data send on a healthy connection (every Write is one whole well-formed message, the data message and - UDP - the refreshed template, never intermixed), a failing write (UDP) or closed peer (TCP) noticed at the tick, later sends failing, Close twice returning with no goroutine of the process left and no byte written afterwards - under every interleaving within a preemption bound; (5) virtual time: a template sent at time 0 is retransmitted when one refresh interval has passed and again after the next, whatever the application sends in between. NOT decided and not claimed: real timing and real scheduling (the interval is a virtual quantity), preemption inside code between synchronisation points other than through the lockset rule, the race detector itself.",
		Assumptions: []string{"lockset and contract harnesses: cooperative single-threaded execution; lifecycle and concurrent-close harnesses: interleavings of synchronisation points explored within the stated preemption bound; the race detector and Go memory model are trusted", "net.Conn contract: Write delivers all bytes or errors; after Close, Write/Read error; Read returns io.EOF when the peer closed", "time.Ticker: ticks only when the harness lets its interval pass; one tick is buffered"},
		Harnesses: []HarnessSpec{
			{Func: "Check_Lockset", NoNative: true, Reach: []string{"entry-point-done", "real-background"}, Tune: func(c *sym.Config, th bool) { c.ClockMode = "wall" }, Bounds: "6 entry points x 0..2 templates already sent x write/peer outcomes; plus the refresh goroutine of the real InitExportingProcess on the path where its write fails and it closes the process itself, and the application's next SendSet afterwards"},
			{Func: "Check_RefreshInterval", NoNative: true, Reach: []string{"intervals", "several-templates"}, Tune: func(c *sym.Config, th bool) { c.ClockMode = "wall" },
				Bounds: "virtual time for the refresh ticker of the real InitExportingProcess (udp, interval 10 s): a template at time 0, then 0..2 further sends (templates or data) 3 s apart, then the rest of the interval, then a second interval; cooperative scheduling"},
			{Func: "Check_Lifecycle", NoNative: true, Reach: []string{"healthy", "closed-by-background", "lifecycle-done"},
				Tune: func(c *sym.Config, th bool) {
					c.ClockMode = "wall"
					c.ExploreSchedules = true
					c.MaxPreemptions = 2
					if th {
						c.MaxPreemptions = 3
					}
					c.HangIsViolation = true
					c.InstrBudget = 3_000_000
				},
				Bounds: "the real InitExportingProcess (udp / tcp; net.Dial returns an in-memory connection; the ticker fires when the harness says the interval has passed) x {healthy connection, failing write (udp) / collector closed (tcp)}: one template, then a tick concurrent with a data send, then Close twice and a further tick; every interleaving of the synchronisation points with at most 2 (quick) / 3 (thorough) preemptions"},
			{Func: "Check_Contracts", Reach: []string{"refreshed", "peer-closed", "closed-twice"}, Tune: func(c *sym.Config, th bool) { c.ClockMode = "wall" }, Bounds: "0..3 templates sent, 0..2 data records sent, then one refresh / peer close + check + close / double close"},
			{Func: "Check_ConcurrentClose", NoNative: true, Reach: []string{"both-returned"},
				Tune: func(c *sym.Config, th bool) {
					c.ClockMode = "wall"
					c.ExploreSchedules = true
					c.MaxPreemptions = 4
					if th {
						c.MaxPreemptions = 8
					}
				},
				Bounds: "two goroutines closing at once (CloseConnToCollector || CloseConnToCollector, CloseConnToCollector || internal close of a background goroutine): EVERY interleaving of their synchronisation points (atomic operations, channel close, WaitGroup) with at most 4 (quick) / 8 (thorough) preemptions"},
		},
	},
}

var _ = sym.Config{}
