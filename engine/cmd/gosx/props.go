package main

import "gosx/sym"

func findProp(id string) *PropSpec {
	for i := range props {
		if props[i].ID == id {
			return &props[i]
		}
	}
	return nil
}

var codecAssumptions = []string{
	"bounded verdict: holds for every value of the symbolic inputs on every feasible path inside the stated structural bounds; nothing is claimed outside them",
	"Go standard library code in reach (bytes.Buffer, encoding/binary, io, container/heap, net.IP.To4/To16) is executed from its SSA, not modelled; its correctness relative to the compiler is trusted",
	"go/ssa (x/tools v0.29.0) is trusted to represent the program; the interpreter is validated per run against the natively compiled harness on concrete vectors",
}

var props = []PropSpec{
	{
		ID: "C00", Pkg: "./c00", ReplayPkg: "./cmd/rc00", Level: "model_checking",
		Harnesses: []HarnessSpec{
			{Func: "Check_Arith", Reach: []string{"big", "small"}},
		},
	},
	{
		ID: "C15", Pkg: "./c15", ReplayPkg: "./cmd/rc15", Level: "model_checking",
		Assumptions: codecAssumptions,
		Harnesses: []HarnessSpec{
			{Func: "Check_Codec", Reach: []string{"decoded", "collector-decoded", "big-field"},
				Bounds: "22 element kinds (every supported data type; octetArray fixed+variable; IPv4 as 4- and 16-byte net.IP; reverse and Antrea enterprise elements); every value bit symbolic; string/octet lengths quick {0..40, 250..260, 65530..65535}, thorough {0..1100, 65500..65535}; element between a symbolic u16 and u32 sentinel"},
			{Func: "Check_TemplateValue", Reach: []string{"built"}, Bounds: "all 22 element kinds, nil value"},
		},
	},
}

var _ = sym.Config{}
