// This file is NOT part of the repository: the C20 check injects it into
// package main of cmd/collector with go's -overlay mechanism (go/packages
// Overlay for the engine), because package main cannot be imported.
package main

import (
	"net/http"
	"net/url"
	"strconv"

	"github.com/vmware/go-ipfix/pkg/entities"
	"github.com/vmware/go-ipfix/pkg/registry"

	"verifh/sx"
)

func Setup() { registry.LoadRegistry() }

type fakeWriter struct {
	hdr    http.Header
	code   int
	writes [][]byte
}

func (f *fakeWriter) Header() http.Header { return f.hdr }
func (f *fakeWriter) Write(b []byte) (int, error) {
	c := make([]byte, len(b))
	copy(c, b)
	f.writes = append(f.writes, c)
	return len(b), nil
}
func (f *fakeWriter) WriteHeader(code int) { f.code = code }

func newWriter() *fakeWriter { return &fakeWriter{hdr: http.Header{}} }

func token(i int) string { return "entry-" + strconv.Itoa(i) }

func storeLens() []int {
	if sx.Tier() == 0 {
		return []int{0, 1, 2, 3, 4094, 4095, 4096}
	}
	return nil // every length
}

func pickLen() int {
	if ls := storeLens(); ls != nil {
		return ls[sx.Choose("storeLen", len(ls))]
	}
	return sx.Range("storeLen", 0, maxFlowRecords)
}

func fill(L int) {
	flowRecords = make([]string, L)
	for i := range flowRecords {
		flowRecords[i] = token(i)
	}
}

// dataMsg: a concrete record; the source port doubles as the arrival token
// (the statement fixes names and values of fields, not the header layout).
func dataMsg(seq uint32) *entities.Message {
	set := entities.NewSet(true)
	set.PrepareSet(entities.Data, 256)
	ie1, _ := registry.GetInfoElement("sourceTransportPort", 0)
	ie2, _ := registry.GetInfoElement("octetDeltaCount", 0)
	ie3, _ := registry.GetInfoElement("sourcePodName", registry.AntreaEnterpriseID)
	ie4, _ := registry.GetInfoElement("samplingProbability", 0)
	ie5, _ := registry.GetInfoElement("dataRecordsReliability", 0)
	ie6, _ := registry.GetInfoElement("sourceIPv4Address", 0)
	set.AddRecord([]entities.InfoElementWithValue{
		entities.NewUnsigned16InfoElement(ie1, uint16(seq)),
		entities.NewUnsigned64InfoElement(ie2, 123456789),
		entities.NewStringInfoElement(ie3, "pod-x"),
		entities.NewFloat64InfoElement(ie4, 1.25e-07),
		entities.NewBoolInfoElement(ie5, true),
		entities.NewIPAddressInfoElement(ie6, []byte{10, 1, 2, 3}),
		// the same element a second time with another value (a template may repeat an element)
		entities.NewUnsigned64InfoElement(ie2, 987654321),
	}, 256)
	m := entities.NewMessage(true)
	m.SetVersion(10)
	m.SetSequenceNum(seq)
	m.SetObsDomainID(7)
	m.AddSet(set)
	return m
}

func contains(s, sub string) bool {
	for i := 0; i+len(sub) <= len(s); i++ {
		if s[i:i+len(sub)] == sub {
			return true
		}
	}
	return false
}

// Check_Arrival: from a store of every length L (an arbitrary full or partly
// filled window) one message arrives: the store never exceeds the cap and
// consists of the most recent entries in arrival order.
func Check_Arrival() {
	L := pickLen()
	fill(L)
	before := append([]string{}, flowRecords...)
	arrivals := sx.Range("arrivals", 1, 2)
	for a := 0; a < arrivals; a++ {
		addIPFIXMessage(dataMsg(uint32(1000 + a)))
	}
	want := L + arrivals
	if want > maxFlowRecords {
		want = maxFlowRecords
	}
	sx.Assert(len(flowRecords) == want, "store-size")
	sx.Assert(len(flowRecords) <= maxFlowRecords, "store-exceeds-cap")
	// the old entries that remain are the most recent ones, in order
	kept := want - arrivals
	for i := 0; i < kept; i++ {
		sx.Assert(flowRecords[i] == before[L-kept+i], "window-is-not-the-most-recent-entries-in-order")
	}
	for a := 0; a < arrivals; a++ {
		e := flowRecords[kept+a]
		sx.Assert(contains(e, "sourceTransportPort") && contains(e, strconv.Itoa(1000+a)), "new-entry-not-last-in-arrival-order")
		// every field of the record appears by element name and value (concrete values only: rendering is the host fmt)
		for _, nv := range [][2]string{{"octetDeltaCount", "123456789"}, {"octetDeltaCount", "987654321"}, {"sourcePodName", "pod-x"}, {"samplingProbability", "1.25e-07"}, {"dataRecordsReliability", "true"}, {"sourceIPv4Address", "10.1.2.3"}} {
			sx.Assert(contains(e, nv[0]) && contains(e, nv[1]), "field-missing-from-rendered-entry")
		}
	}
	if L == maxFlowRecords {
		sx.Reach("full-window")
	}
	sx.Reach("arrived")
}

func request(method, rawQuery string) *http.Request {
	return &http.Request{Method: method, URL: &url.URL{Path: "/records", RawQuery: rawQuery}}
}

// Check_Query: GET /records with any count / format on a store of any length.
func Check_Query() {
	L := pickLen()
	fill(L)
	counts := []string{"", "0", "1", "2", strconv.Itoa(L - 1), strconv.Itoa(L), strconv.Itoa(L + 1), "5000", "-1", "abc", "-99999999999999999999", "99999999999999999999"}
	cs := counts[sx.Choose("count", len(counts))]
	formats := []string{"", "json", "text", "xml"}
	fs := formats[sx.Choose("format", len(formats))]
	q := ""
	if cs != "" {
		q = "count=" + cs
	}
	if fs != "" {
		if q != "" {
			q += "&"
		}
		q += "format=" + fs
	}
	w := newWriter()
	flowRecordHandler(w, request("GET", q))
	sx.Assert(len(flowRecords) == L, "query-changed-the-store")

	// what the statement requires
	invalid := fs == "xml"
	count := L
	switch cs {
	case "":
	case "-1", "abc", "-99999999999999999999", "99999999999999999999":
		invalid = true
	default:
		n, _ := strconv.Atoi(cs)
		if n < 0 {
			invalid = true
		} else if n < L {
			count = n
		}
	}
	if invalid {
		sx.Assert(w.code == http.StatusBadRequest, "invalid-query-not-refused")
		sx.Assert(sx.StubCount("encoding/json.Marshal") == 0 && len(w.writes) <= 1, "invalid-query-returned-records")
		sx.Reach("refused")
		return
	}
	sx.Assert(w.code == 0 || w.code == http.StatusOK, "valid-query-refused")
	wantFirst := L - count
	if fs == "text" {
		sx.Assert(len(w.writes) == 2*count, "text-entry-count")
		for i := 0; i < count; i++ {
			sx.Assert(string(w.writes[2*i]) == token(wantFirst+i), "text-entries-are-not-the-last-n-in-order")
		}
		sx.Reach("text")
		return
	}
	sx.Assert(sx.StubCount("encoding/json.Marshal") == 1, "json-marshal")
	resp := sx.StubArg("encoding/json.Marshal", 0, 0).(*jsonResponse)
	sx.Assert(len(resp.FlowRecords) == count, "json-entry-count")
	for i := 0; i < count; i++ {
		sx.Assert(resp.FlowRecords[i] == token(wantFirst+i), "json-entries-are-not-the-last-n-in-order")
	}
	sx.Reach("json")
}

// Check_QuerySymbolic: the count is a SYMBOLIC integer (strconv.Atoi stubbed)
// on small stores: the slice handed to the encoder is the last min(count, L)
// entries for every count.
func Check_QuerySymbolic() {
	L := sx.Range("storeLen", 0, 6)
	fill(L)
	w := newWriter()
	flowRecordHandler(w, request("GET", "count=SYM&format=json"))
	if w.code == http.StatusBadRequest {
		sx.Reach("refused")
		return
	}
	sx.Assert(sx.StubCount("encoding/json.Marshal") == 1, "json-marshal")
	resp := sx.StubArg("encoding/json.Marshal", 0, 0).(*jsonResponse)
	n := len(resp.FlowRecords)
	sx.Assert(n <= L, "more-entries-than-stored")
	for i := 0; i < n; i++ {
		sx.Assert(resp.FlowRecords[i] == token(L-n+i), "json-entries-are-not-the-last-n-in-order")
	}
	sx.Reach("answered")
}

// Check_QueryAfterChange: a JSON (or text) query, then the store changes
// without changing its length class - an arrival at the cap, or a reset
// followed by as many arrivals as there were entries - then the same query
// again: the second answer is the store as it is now.
func Check_QueryAfterChange() {
	L := []int{1, 2, maxFlowRecords}[sx.Choose("storeLen", 3)]
	fill(L)
	q := []string{"format=json", "count=1&format=json", "format=text"}[sx.Choose("query", 3)]
	w1 := newWriter()
	flowRecordHandler(w1, request("GET", q))
	sx.Assert(w1.code == 0 || w1.code == http.StatusOK, "valid-query-refused")
	if sx.Choose("change", 2) == 0 && L == maxFlowRecords {
		addIPFIXMessage(dataMsg(2000))
		sx.Reach("arrival-at-cap")
	} else {
		w := newWriter()
		resetRecordHandler(w, request("POST", ""))
		sx.Assert(len(flowRecords) == 0, "reset-does-not-empty-the-store")
		n := L
		if n > 2 {
			n = 2
		}
		for a := 0; a < n; a++ {
			addIPFIXMessage(dataMsg(uint32(2000 + a)))
		}
		sx.Reach("reset-and-refill")
	}
	now := append([]string{}, flowRecords...)
	w2 := newWriter()
	flowRecordHandler(w2, request("GET", q))
	count := len(now)
	if q == "count=1&format=json" && count > 1 {
		count = 1
	}
	if q == "format=text" {
		sx.Assert(len(w2.writes) == 2*count, "text-entry-count")
		for i := 0; i < count; i++ {
			sx.Assert(string(w2.writes[2*i]) == now[len(now)-count+i], "second-answer-is-not-the-current-store")
		}
		sx.Reach("second-text")
		return
	}
	sx.Assert(sx.StubCount("encoding/json.Marshal") == 2, "second-json-answer-not-built-from-the-current-store")
	resp := sx.StubArg("encoding/json.Marshal", 1, 0).(*jsonResponse)
	sx.Assert(len(resp.FlowRecords) == count, "json-entry-count")
	for i := 0; i < count; i++ {
		sx.Assert(resp.FlowRecords[i] == now[len(now)-count+i], "second-answer-is-not-the-current-store")
	}
	sx.Reach("second-json")
}

// Check_Methods: other methods are refused; reset empties the store.
func Check_Methods() {
	L := []int{0, 3, 4096}[sx.Choose("storeLen", 3)]
	fill(L)
	switch sx.Choose("case", 4) {
	case 0:
		w := newWriter()
		flowRecordHandler(w, request("POST", ""))
		sx.Assert(w.code == http.StatusMethodNotAllowed, "records-post-not-refused")
		sx.Assert(len(flowRecords) == L, "store-changed")
	case 1:
		w := newWriter()
		resetRecordHandler(w, request("GET", ""))
		sx.Assert(w.code == http.StatusMethodNotAllowed, "reset-get-not-refused")
		sx.Assert(len(flowRecords) == L, "store-changed-by-refused-reset")
	case 2:
		w := newWriter()
		resetRecordHandler(w, request("POST", ""))
		sx.Assert(w.code == http.StatusOK, "reset-status")
		sx.Assert(len(flowRecords) == 0, "reset-does-not-empty-the-store")
		addIPFIXMessage(dataMsg(5))
		sx.Assert(len(flowRecords) == 1, "store-after-reset")
		sx.Reach("reset")
	case 3:
		w := newWriter()
		flowRecordHandler(w, request("DELETE", "count=1"))
		sx.Assert(w.code == http.StatusMethodNotAllowed, "records-delete-not-refused")
	}
	sx.Reach("methods")
}
